"""Shared machinery of the /verif checks (stdlib only).

  * TLC runner + output parser (exhaustive, simulation, trace validation)
  * TLA+ value / action-label parser and transition-tour generator over a
    state graph dumped with `-dump dot,actionlabels`
  * scratch copy of /repo's working tree with the Go harness injected
  * trace validation loop (reject -> isolate scenario -> replay file)
  * evidence / known-findings / exit-code handling
"""
import json, os, re, shutil, subprocess, sys, tempfile, time, random, hashlib, collections

ROOT = os.path.dirname(os.path.dirname(os.path.abspath(__file__)))
REPO = os.environ.get("VERIF_REPO", "/repo")
SPECS = os.path.join(ROOT, "specs")
HARNESS = os.path.join(ROOT, "harness")
EVID = os.environ.get("VERIF_EVIDENCE", os.path.join(ROOT, "evidence"))   # (redirected when seeded changes are tried)
REPLAYS = os.path.join(EVID, "replays")
TMPBASE = os.environ.get("VERIF_TMP", "/var/tmp")
NCPU = os.cpu_count() or 4

GOENV = {
    "GOFLAGS": "-mod=mod", "GOPROXY": "off", "GOSUMDB": "off", "GOTOOLCHAIN": "local",
}


class Inconclusive(Exception):
    """infrastructure problem: exit 2, never a violation"""


def log(*a):
    print(*a, flush=True)


# --------------------------------------------------------------------------
# scratch directories
_scratch = []


def scratch(prefix="verif-"):
    d = tempfile.mkdtemp(prefix=prefix, dir=TMPBASE)
    _scratch.append(d)
    return d


def cleanup():
    for d in _scratch:
        shutil.rmtree(d, ignore_errors=True)
    del _scratch[:]


# --------------------------------------------------------------------------
# TLC
class TLCResult:
    def __init__(self):
        self.rc = None
        self.out = ""
        self.generated = 0
        self.distinct = 0
        self.depth = 0
        self.errors = []
        self.violated = []      # invariants / properties reported violated
        self.printed = []       # lines printed by PrintT / Print
        self.wall = 0.0
        self.cmd = ""
        self.coverage = {}      # action -> count (when -coverage given)

    @property
    def ok(self):
        return self.rc == 0 and not self.errors and not self.violated


_STATES_RE = re.compile(r"(\d[\d,]*) states generated, (\d[\d,]*) distinct states found")
_DEPTH_RE = re.compile(r"depth of the complete state graph search is (\d+)")


def run_tlc(family, module, cfg, *, workers=None, args=(), env=None, timeout=900, extra_files=(),
            keep_dir=None, heap=None):
    """Run TLC on specs/<family>/<module>.tla with <cfg> in a scratch copy.
    Returns TLCResult.  Raises Inconclusive on timeout / JVM failure."""
    d = keep_dir or scratch("tlc-")
    src = os.path.join(SPECS, family)
    for f in os.listdir(src):
        if f.endswith(".tla") or f.endswith(".cfg"):
            shutil.copy(os.path.join(src, f), d)
    common = os.path.join(SPECS, "common")
    if os.path.isdir(common):
        for f in os.listdir(common):
            if f.endswith(".tla"):
                shutil.copy(os.path.join(common, f), d)
    for f in extra_files:
        shutil.copy(f, d)
    w = str(workers if workers else min(NCPU, 16))
    java = ["java", "-XX:+UseParallelGC"]
    if heap:
        java.append("-Xmx" + heap)
    java += ["-Xss64m", "-cp",
             "/opt/veriftools/tla/tla2tools.jar:/opt/veriftools/tla/CommunityModules-deps.jar",
             "tlc2.TLC"]
    cmd = java + ["-workers", w, "-metadir", os.path.join(d, "md-%d" % int(time.time() * 1000)),
                  "-config", cfg] + ([] if "-fp" in args else ["-fp", "0"]) + list(args) + [module + ".tla"]
    e = dict(os.environ)
    if env:
        e.update(env)
    r = TLCResult()
    r.cmd = "tlc -workers %s -config %s %s %s.tla" % (w, cfg, " ".join(args), module)
    t0 = time.time()
    try:
        p = subprocess.run(cmd, cwd=d, env=e, stdout=subprocess.PIPE, stderr=subprocess.STDOUT,
                           timeout=timeout, text=True, errors="replace")
    except subprocess.TimeoutExpired:
        raise Inconclusive("TLC timeout after %ds: %s" % (timeout, r.cmd))
    r.wall = time.time() - t0
    r.rc = p.returncode
    r.out = p.stdout
    for line in p.stdout.splitlines():
        m = _STATES_RE.search(line)
        if m:
            r.generated = int(m.group(1).replace(",", ""))
            r.distinct = int(m.group(2).replace(",", ""))
        m = _DEPTH_RE.search(line)
        if m:
            r.depth = int(m.group(1))
        if line.startswith("Error:"):
            r.errors.append(line)
            m2 = re.search(r"Invariant (\S+) is violated", line)
            if m2:
                r.violated.append(m2.group(1))
            if "Temporal properties were violated" in line or "is violated" in line and not m2:
                r.violated.append(line)
        if line.startswith("<<") or line.startswith('"') or line.startswith("{") or line.startswith("["):
            r.printed.append(line)
    if "java.lang.OutOfMemoryError" in r.out or "StackOverflowError" in r.out:
        raise Inconclusive("TLC JVM failure: " + r.cmd + "\n" + r.out[-2000:])
    return r


def tlc_must_pass(res, what):
    """A design-level model that fails on the committed specs is a bug in the machinery."""
    if not res.ok:
        raise Inconclusive("model check of %s failed (spec bug, not a verdict on the code):\n%s"
                           % (what, res.out[-3000:]))
    return res


# --------------------------------------------------------------------------
# TLA+ value parser (enough for action labels and printed values)
class _P:
    def __init__(self, s):
        self.s = s
        self.i = 0

    def ws(self):
        while self.i < len(self.s) and self.s[self.i] in " \t\n\r":
            self.i += 1

    def peek(self, k=1):
        return self.s[self.i:self.i + k]

    def value(self):
        self.ws()
        s = self.s
        if self.peek(2) == "<<":
            self.i += 2
            out = self.items(">>")
            return out
        c = self.peek()
        if c == "{":
            self.i += 1
            return self.items("}")
        if c == "[":
            self.i += 1
            rec = {}
            while True:
                self.ws()
                if self.peek() == "]":
                    self.i += 1
                    break
                m = re.match(r"\s*([A-Za-z_0-9]+)\s*\|->", s[self.i:])
                if not m:
                    raise ValueError("record parse at %d in %r" % (self.i, s))
                self.i += m.end()
                rec[m.group(1)] = self.value()
                self.ws()
                if self.peek() == ",":
                    self.i += 1
            return rec
        if c == '"':
            j = self.i + 1
            out = []
            while s[j] != '"':
                if s[j] == "\\":
                    j += 1
                out.append(s[j])
                j += 1
            self.i = j + 1
            return "".join(out)
        m = re.match(r"-?\d+", s[self.i:])
        if m:
            self.i += m.end()
            return int(m.group(0))
        m = re.match(r"[A-Za-z_][A-Za-z_0-9]*", s[self.i:])
        if m:
            self.i += m.end()
            w = m.group(0)
            if w == "TRUE":
                return True
            if w == "FALSE":
                return False
            return w
        raise ValueError("value parse at %d in %r" % (self.i, s))

    def items(self, close):
        out = []
        while True:
            self.ws()
            if self.peek(len(close)) == close:
                self.i += len(close)
                return out
            out.append(self.value())
            self.ws()
            if self.peek() == ",":
                self.i += 1


def parse_tla(s):
    return _P(s).value()


def parse_label(lab):
    """'Do(3,TRUE)' -> ('Do', [3, True]);  'Tick' -> ('Tick', [])"""
    lab = lab.strip()
    m = re.match(r"([A-Za-z_][A-Za-z_0-9!]*)\s*(\((.*)\))?$", lab, re.S)
    if not m:
        raise ValueError("bad label %r" % lab)
    name = m.group(1)
    if m.group(3) is None:
        return name, []
    return name, _args(_P(m.group(3)))


def _args(p):
    out = []
    while True:
        p.ws()
        if p.i >= len(p.s):
            return out
        out.append(p.value())
        p.ws()
        if p.peek() == ",":
            p.i += 1


# --------------------------------------------------------------------------
# state graph + transition tours
_EDGE_RE = re.compile(r'^(-?\d+) -> (-?\d+) \[label="((?:[^"\\]|\\.)*)"')
_NODE_RE = re.compile(r'^(-?\d+) \[label="((?:[^"\\]|\\.)*)"(,style = filled)?')


def load_graph(dot):
    """returns (inits, adj) with adj[node] = [(label, dst)], duplicates removed"""
    inits = []
    adj = collections.defaultdict(list)
    seen = set()
    n_edges = 0
    with open(dot) as f:
        for line in f:
            m = _EDGE_RE.match(line)
            if m:
                s, d, lab = int(m.group(1)), int(m.group(2)), m.group(3).replace('\\"', '"')
                k = (s, d, lab)
                if k in seen:
                    continue
                seen.add(k)
                adj[s].append((lab, d))
                n_edges += 1
                continue
            m = _NODE_RE.match(line)
            if m and m.group(3):
                inits.append(int(m.group(1)))
    for k in adj:
        adj[k].sort()
    inits.sort()
    return inits, adj, n_edges


def tours(inits, adj, *, max_len=40, rng=None, max_tours=None, skip=lambda lab: False, budget=400):
    """Transition tours: paths from an initial state that together take every
    edge of the graph at least once (edges for which skip(label) holds need not be
    covered but may be used).  A tour starts in an initial state and follows uncovered edges
    greedily; when it is stuck it walks to the nearest state that still has one (searched in a
    bounded neighbourhood) and, if there is none nearby and the tour is still empty, along a
    shortest path to the next such state anywhere.  Every edge walked counts as covered.
    Deterministic for a given rng seed."""
    rng = rng or random.Random(0)
    uncovered = {}
    for s, es in sorted(adj.items()):   # (sorted: the tours depend on the seed only, not on the order of the dump)
        u = [i for i, (lab, d) in enumerate(es) if not skip(lab)]
        if u:
            rng.shuffle(u)
            uncovered[s] = u
    total = sum(len(u) for u in uncovered.values())
    covered = [0]

    def mark(x, i):
        u = uncovered.get(x)
        if u is not None and i in u:
            u.remove(i)
            covered[0] += 1
            if not u:
                del uncovered[x]

    # shortest-path tree from the initial states
    parent = {}
    order = []
    q = collections.deque()
    for i in inits:
        if i not in parent:
            parent[i] = None
            q.append(i)
    while q:
        x = q.popleft()
        order.append(x)
        for i, (lab, d) in enumerate(adj.get(x, ())):
            if d not in parent:
                parent[d] = (x, i)
                q.append(d)
    depth = {}
    for x in order:
        depth[x] = 0 if parent[x] is None else depth[parent[x][0]] + 1

    def path_to(x):
        p = []
        while parent[x] is not None:
            px, i = parent[x]
            p.append((px, i))
            x = px
        p.reverse()
        return x, p

    def near(src, room):
        """nearest state with an uncovered edge within `budget` expansions and `room` steps"""
        if failed.get(src, -1) >= room:
            return None                 # (the uncovered set only shrinks)
        prev = {src: None}
        dist = {src: 0}
        q = collections.deque([src])
        n = 0
        while q and n < budget:
            x = q.popleft()
            n += 1
            if x != src and x in uncovered:
                path = []
                while prev[x] is not None:
                    px, i = prev[x]
                    path.append((px, i))
                    x = px
                path.reverse()
                return path
            if dist[x] >= room:
                continue
            for i, (lab, d) in enumerate(adj.get(x, ())):
                if d not in prev:
                    prev[d] = (x, i)
                    dist[d] = dist[x] + 1
                    q.append(d)
        failed[src] = max(room, failed.get(src, -1))
        return None

    failed = {}
    out = []
    starts = [x for x in order if x in uncovered and depth[x] < max_len]
    for x in list(uncovered):
        if x not in depth or depth[x] >= max_len:
            del uncovered[x]            # not reachable within max_len
    si = 0
    k = 0
    while uncovered:
        init = inits[k % len(inits)]
        k += 1
        cur = init
        path = []
        before = covered[0]
        while len(path) < max_len:
            if cur in uncovered:
                i = uncovered[cur][-1]
                mark(cur, i)
                lab, d = adj[cur][i]
                path.append(lab)
                cur = d
                continue
            p = near(cur, max_len - len(path) - 1)
            if p is None and not path:
                while si < len(starts) and starts[si] not in uncovered:
                    si += 1
                if si == len(starts):
                    break
                cur, p = path_to(starts[si])
            if p is None:
                break
            for x, i in p:
                mark(x, i)
                lab, d = adj[x][i]
                path.append(lab)
                cur = d
        if covered[0] > before:
            out.append(path)
        elif si >= len(starts):
            break
        if max_tours and len(out) >= max_tours:
            break
    return out, covered[0], total


def run_apalache(family, module, args, timeout=180):
    """Apalache on a copy of specs/<family>: 'ok' (no error), 'error' (property violated), or
    'unavailable: ...' (tool missing, timeout, anything else).  Used for inductive-invariant notes only."""
    d = scratch("apa-")
    for f in os.listdir(os.path.join(SPECS, family)):
        if f.endswith(".tla"):
            shutil.copy(os.path.join(SPECS, family, f), d)
    exe = shutil.which("apalache-mc")
    if not exe:
        return "unavailable: apalache-mc not on PATH"
    try:
        p = subprocess.run([exe, "check", "--out-dir=" + os.path.join(d, "out")] + list(args) + [module + ".tla"], cwd=d,
                           stdout=subprocess.PIPE, stderr=subprocess.STDOUT, text=True, timeout=timeout)
    except subprocess.TimeoutExpired:
        return "unavailable: timeout"
    if "The outcome is: NoError" in p.stdout:
        return "ok"
    if "The outcome is: Error" in p.stdout:
        return "error"
    return "unavailable: " + p.stdout[-200:].replace("\n", " ")


# --------------------------------------------------------------------------
# scratch copy of the working tree with harness injected
def repo_copy():
    d = scratch("repo-")
    subprocess.run(["rsync", "-a", "--exclude", ".git", REPO + "/", d + "/"], check=True)
    return d


def inject(repo, mapping):
    """mapping: {harness-relative source (file or dir): repo-relative destination}"""
    for src, dst in mapping.items():
        s = os.path.join(HARNESS, src)
        t = os.path.join(repo, dst)
        if os.path.isdir(s):
            os.makedirs(t, exist_ok=True)
            for f in os.listdir(s):
                if os.path.isfile(os.path.join(s, f)):
                    shutil.copy(os.path.join(s, f), os.path.join(t, f))
        else:
            os.makedirs(os.path.dirname(t), exist_ok=True)
            shutil.copy(s, t)


def ensure_instr():
    b = os.path.join(ROOT, "bin", "instr")
    src = os.path.join(ROOT, "tools", "instr")
    if os.path.exists(b) and os.path.getmtime(b) >= os.path.getmtime(os.path.join(src, "main.go")):
        return b
    e = dict(os.environ)
    e.update(GOENV)
    p = subprocess.run(["go", "build", "-o", b, "."], cwd=src, env=e, capture_output=True, text=True)
    if p.returncode != 0:
        raise Inconclusive("cannot build tools/instr: " + p.stderr)
    return b


def go_test(repo, pkg, run, *, env=None, go="go1.26.8", tags="verif", timeout=900, synctest=False,
            extra=()):
    e = dict(os.environ)
    e.update(GOENV)
    if synctest:
        e["GODEBUG"] = "asynctimerchan=0"
    if env:
        e.update({k: str(v) for k, v in env.items()})
    cmd = [go, "test", "-v", "-tags", tags, "-count=1", "-vet=off", "-timeout", "%ds" % timeout,
           "-run", run] + list(extra) + [pkg]
    t0 = time.time()
    try:
        p = subprocess.run(cmd, cwd=repo, env=e, stdout=subprocess.PIPE, stderr=subprocess.STDOUT,
                           timeout=timeout + 60, text=True, errors="replace")
    except subprocess.TimeoutExpired:
        raise Inconclusive("go test timeout: " + " ".join(cmd))
    return p.returncode, p.stdout, time.time() - t0


def classify_go_failure(out):
    """'stopped'  : the harness recorded the evidence and stopped deliberately (panic: verif: ...)
       'sut-panic': a panic raised inside pion/transport code (not in the harness)
       'infra'    : anything else (harness bug, build failure, timeout)"""
    if "panic: verif:" in out:
        return "stopped"
    if "panic:" not in out and "fatal error:" not in out:
        return "infra"
    if re.search(r"panic: test timed out|panic: deadlock: |all goroutines are asleep", out):
        return "infra"          # a hang is not attributed by the stack of whoever happens to be listed first
    tail = out[out.index("panic:") if "panic:" in out else out.index("fatal error:"):]
    frames = re.findall(r"^\t(\S+\.go):\d+", tail, re.M)
    for f in frames:
        base = os.path.basename(f)
        if "/runtime/" in f or "/testing/" in f or "/src/" in f and "/pion/" not in f and "repo-" not in f:
            continue
        if base.startswith("zz_verif") or "/internal/vrt/" in f:
            return "infra"
        return "sut-panic"
    return "infra"


# --------------------------------------------------------------------------
# traces
def read_ndjson(path):
    out = []
    with open(path) as f:
        for line in f:
            line = line.strip()
            if line:
                out.append(json.loads(line))
    return out


def split_scenarios(lines, is_reset=lambda e: e.get("ev") == "reset"):
    """list of (start_index, [events]) — a scenario starts at each reset line"""
    scen = []
    cur = None
    for i, e in enumerate(lines):
        if is_reset(e):
            cur = (i, [e])
            scen.append(cur)
        else:
            if cur is None:
                cur = (i, [])
                scen.append(cur)
            cur[1].append(e)
    return scen


_HW_RE = re.compile(r'<<"HW", (\d+), (\d+)>>')


def validate_trace(family, module, cfg, lines, *, timeout=900, env=None, chunk=None, heap=None):
    """Validate a list of events against a Trace spec.  Returns (accepted, hw, res)
    where hw = number of lines consumed by the longest matched prefix."""
    d = scratch("tv-")
    path = os.path.join(d, "trace.ndjson")
    with open(path, "w") as f:
        for e in lines:
            f.write(json.dumps(e, separators=(",", ":")) + "\n")
    e = {"TRACE": path}
    if env:
        e.update(env)
    res = run_tlc(family, module, cfg, workers=1, env=e, timeout=timeout, keep_dir=d, heap=heap)
    hw = None
    for line in res.out.splitlines():
        m = _HW_RE.search(line)
        if m:
            hw = int(m.group(1))
            n = int(m.group(2))
    if hw is None:
        raise Inconclusive("trace validation produced no verdict (%s/%s):\n%s"
                           % (family, module, res.out[-3000:]))
    accepted = (hw == len(lines)) and res.ok
    if hw == len(lines) and not res.ok:
        # all lines consumed but TLC reported an error (e.g. invariant of the trace spec)
        accepted = False
    shutil.rmtree(d, ignore_errors=True)
    return accepted, hw, res


def validate_scenarios(family, module, cfg, lines, *, max_fail=5, timeout=900, env=None,
                       is_reset=lambda e: e.get("ev") == "reset", batch=60000, heap=None):
    """Validate all scenarios; isolate rejected ones.  Returns (n_ok, failures) where
    failures = [dict(scenario=[events], matched=k, first_unmatched=event)]"""
    scen = split_scenarios(lines, is_reset)
    failures = []
    n_ok = 0
    tlc_states = 0
    # process in batches of ~batch lines to bound TLC memory
    i = 0
    while i < len(scen):
        group = []
        cnt = 0
        while i < len(scen) and (cnt == 0 or cnt + len(scen[i][1]) <= batch):
            group.append(scen[i][1])
            cnt += len(scen[i][1])
            i += 1
        while group:
            flat = [e for s in group for e in s]
            ok, hw, res = validate_trace(family, module, cfg, flat, timeout=timeout, env=env, heap=heap)
            tlc_states += res.distinct
            if ok:
                n_ok += len(group)
                break
            # locate the scenario containing line hw (0-based index of first unmatched line)
            pos = 0
            k = 0
            for k, s in enumerate(group):
                if pos + len(s) > hw:
                    break
                pos += len(s)
            bad = group[k]
            matched = hw - pos
            failures.append({"scenario": bad, "matched": matched,
                             "first_unmatched": bad[matched] if matched < len(bad) else None,
                             "tlc_tail": res.out[-1500:] if hw >= len(flat) else ""})
            n_ok += k
            group = group[k + 1:]
            if len(failures) >= max_fail:
                return n_ok, failures, tlc_states
    return n_ok, failures, tlc_states


# --------------------------------------------------------------------------
# known findings
def load_known():
    p = os.path.join(ROOT, "KNOWN_FINDINGS.json")
    if not os.path.exists(p):
        return {"findings": [], "fixed": []}
    return json.load(open(p))


# --------------------------------------------------------------------------
# evidence + verdict
class Report:
    def __init__(self, pid, tier, seed):
        self.pid = pid
        self.tier = tier
        self.seed = seed
        self.t0 = time.time()
        self.states = 0
        self.transitions = 0
        self.traces = 0
        self.samples = []
        self.extra = {}
        self.assumptions = []
        self.violations = []    # (replay_path, description)
        self.known = []         # descriptions of known findings hit
        self.notes = []
        self.exhaustive = False
        self.tlc_cmds = []
        self.stopped = None     # the driver was stopped by its watchdog: without a violation the run is inconclusive

    def add_tlc(self, res):
        self.states += res.distinct
        self.transitions += res.generated
        self.tlc_cmds.append(res.cmd)

    def sample(self, x):
        if len(self.samples) < 6:
            self.samples.append(x if isinstance(x, str) else json.dumps(x, separators=(",", ":"), default=str)[:1200])

    def violation(self, payload, desc):
        os.makedirs(REPLAYS, exist_ok=True)
        h = hashlib.sha1(json.dumps(payload, sort_keys=True, default=str).encode()).hexdigest()[:10]
        path = os.path.join(REPLAYS, "%s-%s-%s.json" % (self.pid, self.seed, h))
        with open(path, "w") as f:
            json.dump({"property": self.pid, "seed": self.seed, "tier": self.tier,
                       "description": desc, "replay": payload}, f, indent=1, default=str)
        self.violations.append((path, desc))
        return path

    def finish(self, rc=None):
        if self.stopped and not self.violations and rc is None:
            raise Inconclusive("the driver stopped early (%s) and what it recorded up to then shows no violation" % self.stopped)
        os.makedirs(EVID, exist_ok=True)
        ev = {
            "property_id": self.pid, "tier": self.tier, "seed": self.seed,
            "level": "model_checking",
            "coverage": dict({
                "states": max(self.states, 0), "transitions": max(self.transitions, 0),
                "traces_validated_against_impl": self.traces,
                "samples": self.samples or ["(none)"],
                "exhaustive": self.exhaustive,
                "tlc_cmds": self.tlc_cmds[:12],
                "notes": self.notes,
                "known_findings_hit": self.known,
            }, **self.extra),
            "assumptions": self.assumptions,
            "wall_s": round(time.time() - self.t0, 2),
            "violations": len(self.violations),
        }
        with open(os.path.join(EVID, self.pid + ".json"), "w") as f:
            json.dump(ev, f, indent=1, default=str)
        for k in self.known:
            log("KNOWN-FINDING: property=%s %s" % (self.pid, k))
        for path, desc in self.violations:
            log("VIOLATION property=%s replay=%s" % (self.pid, path))
            log("  " + desc.replace("\n", "\n  ")[:1500])
        if rc is None:
            rc = 1 if self.violations else 0
        log("%s %s tier=%s seed=%s states=%d transitions=%d traces=%d wall=%.1fs"
            % ("FAIL" if rc == 1 else ("INCONCLUSIVE" if rc == 2 else "PASS"), self.pid, self.tier,
               self.seed, self.states, self.transitions, self.traces, time.time() - self.t0))
        return rc


def seed_from_env():
    try:
        return int(os.environ.get("VERIF_SEED", "1"))
    except ValueError:
        return 1
