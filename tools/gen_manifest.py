#!/usr/bin/env python3
"""Regenerates /verif/MANIFEST.json from the table below (single source of truth)."""
import json, os
ROOT = os.path.dirname(os.path.dirname(os.path.abspath(__file__)))

MC = "model_checking"
CHECKS = {
 "C04": dict(engine="tlc-trace", design_ref="DESIGN.md §4 C04",
   technique="TLA+ spec (ReplayDetector.tla StepSafe) + TLC exhaustive MC + transition-tour replay and real-scale driver traces validated by TLC",
   text="TLC checks NoDoubleAccept on the exact sliding-window rule for every configuration W<=5, Max<=11 (both kinds); every transition of that state graph is replayed on the real detector and seeded real-scale histories (windows around every multiple of 64 up to 400, maxima up to 2^64-1, limb-encoded) are recorded; every recorded trace is validated by TLC against the C04 safety spec. A violation is a real recorded history the spec rejects.",
   note="trusts TLC, the Json/IOUtils modules, Num.tla (checked against naturals at Base 4); exhaustive only within the stated constants; real-scale part is sampled"),
 "C05": dict(engine="tlc-trace", design_ref="DESIGN.md §4 C05",
   technique="TLA+ spec (ReplayDetector.tla StepExact) + TLC exhaustive MC + transition-tour replay and real-scale driver traces validated by TLC",
   text="Same traces as C04 validated against the exact acceptance rule (ok, accept's latest flag and purity of Check are functions of the spec state); the two distances nearest the half-space boundary are left open as the property says.",
   note="as C04"),
}

def main():
    checks = []
    for pid in sorted(CHECKS):
        c = CHECKS[pid]
        checks.append({
            "property_id": pid,
            "quick_cmd": "bin/check %s --tier quick" % pid,
            "thorough_cmd": "bin/check %s --tier thorough" % pid,
            "evidence_file": "/verif/evidence/%s.json" % pid,
            "replay_cmd_template": "bin/check %s --replay {path}" % pid,
            "engine": c["engine"],
            "level_claimed": {"category": MC, "text": c["text"], "design_ref": c["design_ref"]},
            "level_note": c["note"],
            "technique": c["technique"],
        })
    allp = [json.loads(l)["id"] for l in open(os.path.join(ROOT, "properties.jsonl"))]
    na = []
    NA_REASON = {
        "C19": "data-race freedom is a property of memory accesses below the abstraction of a TLA+ state/transition specification; only the Go race detector decides it, which is a different technique (DESIGN.md §5)",
    }
    for p in allp:
        if p not in CHECKS:
            na.append({"property_id": p, "reason": NA_REASON.get(p, "check not built yet in this round (planned, see DESIGN.md §4); not claimed until its TLA+ spec and conformance harness exist")})
    m = {
        "version": 1,
        "setup_cmd": "python3 tools/setup.py",
        "hooks": {
            "guard": "verif",
            "enable": "checks rsync /repo's working tree to a scratch directory, copy harness/* test files (//go:build verif) and harness/vrt (as internal/vrt) into it and run `go test -tags verif`; nothing guarded is committed to /repo",
            "baseline_off_cmd": "cd /repo && go test -mod=mod -json -vet=off -count=1 -timeout 25m ./...",
            "source_commits": [],
            "add_only": True,
        },
        "engines": [
            {"name": "tlc-mc", "path": "specs/", "serves_properties": sorted(CHECKS), "kind_free_text": "TLC exhaustive model checking of the design-level TLA+ specs (MC_*.cfg) and state-graph dump for transition tours"},
            {"name": "tlc-trace", "path": "specs/*/Trace*.tla", "serves_properties": sorted(CHECKS), "kind_free_text": "TLC trace validation of NDJSON traces recorded from the real Go code (POSTCONDITION high-water mark)"},
            {"name": "go-harness", "path": "harness/", "serves_properties": sorted(CHECKS), "kind_free_text": "Go test files injected into a scratch copy of /repo: replay TLC tours / seeded drivers against the real packages and record traces"},
        ],
        "checks": checks,
        "not_applicable": na,
        "notes": "Exit codes: 0 held, 1 VIOLATION (real recorded trace rejected by the spec, or panic of code under test), 2 inconclusive (infrastructure). KNOWN_FINDINGS.json lists fixed defects and open findings.",
    }
    with open(os.path.join(ROOT, "MANIFEST.json"), "w") as f:
        json.dump(m, f, indent=1)
        f.write("\n")

if __name__ == "__main__":
    main()
