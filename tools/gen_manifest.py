#!/usr/bin/env python3
"""Regenerates /verif/MANIFEST.json from the table below (single source of truth)."""
import json, os
ROOT = os.path.dirname(os.path.dirname(os.path.abspath(__file__)))

MC = "model_checking"
CHECKS = {
 "C04": dict(engine="tlc-trace", design_ref="DESIGN.md §4 C04",
   technique="TLA+ spec (ReplayDetector.tla StepSafe) + TLC exhaustive MC + transition-tour replay and real-scale driver traces validated by TLC",
   text="TLC checks NoDoubleAccept on the exact sliding-window rule for every configuration W<=5, Max<=11 (both kinds); every transition of that state graph is replayed on the real detector and seeded real-scale histories (windows around every multiple of 64 up to 400, maxima up to 2^64-1, limb-encoded) are recorded; every recorded trace is validated by TLC against the C04 safety spec. Histories in which accept callbacks are invoked later than the next Check (several checks outstanding, callbacks in any order or never: ReplayOut.tla, MC_ReplayOut with two callback slots) are generated as tours of that graph and by a real-scale driver with four slots and validated the same way. A violation is a real recorded history the spec rejects. As a note, Apalache discharges the inductive invariant of the mask-word model (ReplayMaskInd.tla) without a bound on the history length.",
   note="trusts TLC, the Json/IOUtils modules, Num.tla (checked against naturals at Base 4); exhaustive only within the stated constants; real-scale part is sampled"),
 "C05": dict(engine="tlc-trace", design_ref="DESIGN.md §4 C05",
   technique="TLA+ spec (ReplayDetector.tla StepExact) + TLC exhaustive MC + transition-tour replay and real-scale driver traces validated by TLC",
   text="Same traces as C04 validated against the exact acceptance rule (ok, accept's latest flag and purity of Check are functions of the spec state); the two distances nearest the half-space boundary are left open as the property says.",
   note="as C04"),
 "C06": dict(engine="tlc-trace", design_ref="DESIGN.md §4 C06",
   technique="TLA+ FIFO spec (PacketBuffer.tla) + TLC exhaustive MC + transition tours, ring-geometry steering and limit drivers on the real Buffer; traces validated by TLC (Judge=fifo)",
   text="TLC checks Conservation (reads ++ queue = accepted writes) on PacketBuffer.tla; every transition of the small graph is replayed on the real packetio.Buffer; seeded drivers steer head/tail to every offset around the ring end for each growth size, force growth with split data, use destination slices shorter/longer than the packet and overwrite the writer's slice; every recorded operation (result, length, leading bytes, payload self-consistency) is validated by TLC against the FIFO spec.",
   note="payload tail bytes are checked by the harness as a function of the leading 4 bytes (TLC sees id/length/result); sequential histories — concurrency is C08; exhaustive only at the MC constants"),
 "C07": dict(engine="tlc-trace", design_ref="DESIGN.md §4 C07",
   technique="TLA+ spec of limits/occupancy (PacketBuffer.tla) + TLC MC + limit-approach driver traces validated by TLC (Judge=limits)",
   text="Same traces as C06, judged for the refusal rule and for Count()/Size() logged after every operation: full iff count limit reached or size+2+len exceeds the size limit (4 MiB cap without limit; the single value size+2+len = 4 MiB is left open), refusal changes nothing, limits changed at arbitrary points.",
   note="as C06; the 4 MiB approach runs in the thorough tier only"),
 "C09": dict(engine="tlc-trace", design_ref="DESIGN.md §4 C09",
   technique="TLA+ spec with explicit runtime dispatch/run steps (Deadline.tla) + TLC MC + tour replay with a fake runtime timer in virtual time; traces validated by TLC",
   text="TLC checks NeverEarly / FiresWhenDue on Deadline.tla for all Set/advance/dispatch/run orders with up to 3 outstanding callbacks; every transition is replayed on the real Deadline inside synctest bubbles with a harness timer in the unexported timer field (dispatch and callback execution are explicit steps, so stale callbacks racing Set are enumerated), plus public-API histories with real timers; Done/Err/Deadline/channel identity after every step are validated by TLC. As a note, Apalache discharges an inductive invariant implying the three C09 invariants of Deadline.tla with no bound on clock, Set times, callbacks in flight or history length (DeadlineInd.tla).",
   note="virtual time from testing/synctest (go1.26.8, asynctimerchan=0); fake-timer binding names unexported identifiers, falls back to public API if they disappear"),
 "C15": dict(engine="tlc-trace", design_ref="DESIGN.md §4 C15",
   technique="TLA+ conformance automaton (TBF.tla: virtual bucket never negative <=> burst+rate bound on every sub-interval) + TLC MC of the transcribed algorithm + virtual-time arrival plans on the real filter validated by TLC",
   text="TLC checks that the token-bucket algorithm (as transcribed from tbf.go) never makes a departure the automaton forbids, for all small arrival/option-change patterns; seeded arrival plans (idle gaps to 10^7 ms, bursts far above the rate, sizes 0..2x burst, run-time rate/burst changes) run on the real TokenBucketFilter in exact virtual time; every arrival/departure is validated by TLC: burst+rate bound over all sub-intervals, FIFO, no duplicate, unmodified, discard only when the byte queue is full.",
   note="virtual time via testing/synctest; integer-exact because rates are multiples of 8000 bit/s (1 byte slack for float arithmetic); lowered rate/burst take effect within a 1 s grace, raised ones immediately (lenient reading)"),
 "C16": dict(engine="tlc-trace", design_ref="DESIGN.md §4 C16",
   technique="TLA+ spec (LossFilter.tla) + TLC MC + 10 000-datagram streams per chance through the real filter, plus re-entrant use (the next NIC hands in further datagrams from within the call), validated by TLC; integer 7-sigma monitor for the drop fraction",
   text="Every datagram handed to the real LossFilter is logged with what the next NIC received during the call; TLC validates: chance<=0 forwards all, >=100 none, never anything but the datagram itself at most once (in-order subsequence, unmodified), and at the end of each stream the drop count within 7 sigma of chance/100. In the re-entrant runs the forwarded sequence of every outermost call must be an in-order, duplicate-free subsequence of the hand-ins (all of them at chance <= 0, none at >= 100).",
   note="the probability clause is a statistical monitor, not a proof; global math/rand is not controlled; concurrent callers of one filter are not exercised (the property quantifies over input streams)"),
 "C20": dict(engine="tlc-trace", design_ref="DESIGN.md §4 C20",
   technique="TLA+ transcription of XorBytes (Xor.tla, Bitwise) ; TLC enumerates the structural case space (lengths x offsets x aliasing) and validates every real call's full before/after contents",
   text="TLC enumerates 32 076 (quick) / 221 952 (thorough) structural cases: len(a), len(b) in 0..17 (0..33), start offsets of the three slices, dst==a, dst==b, disjoint, slack in dst; each is executed on the real XorBytes with seeded contents inside guard-padded arrays plus random long inputs; TLC recomputes the expected bytes and compares return value, dst, a, b; guard bytes checked by the harness.",
   note="only the crypto/subtle-backed build of XorBytes exists on this toolchain; contents are sampled, structure is exhaustive within the bounds"),
 "C08": dict(engine="vrt-sched", design_ref="DESIGN.md §4 C08",
   technique="TLA+ protocol model (MC_BufferSync.tla) + linearizability/quiescence trace spec (BufferConc.tla); real Buffer under a gate scheduler (yield points inserted by tools/instr) in synctest bubbles, schedules enumerated depth-first then seeded random; every schedule's call/return/quiescence history validated by TLC",
   text="TLC checks NoStuckReader/CloseWakesAll/EventuallyServed on the wake-up protocol (and that the protocol without re-posting violates it). The real Buffer, with a yield before every lock/channel/select operation, runs scenario families (up to 3 readers, 3 writes, writes immediately followed by Close, past/future/cleared deadlines with the clock advancing, deadline re-arm races) under all schedules up to a budget per scenario (exhaustive where marked) plus seeded random schedules; at exact quiescence every unreturned call must be a Read that legitimately waits (empty, open, deadline not passed) and every returned call must linearize on the FIFO spec. Free-running writers, readers, limit setters and a closer (real parallelism, no scheduler) add histories judged by the same spec.",
   note="critical sections are atomic steps; Go's random select choice is uncontrolled; exhaustive only for the scenarios the evidence marks exhaustive; schedule space beyond the budget is sampled"),
 "C14": dict(engine="vrt-sched", design_ref="DESIGN.md §4 C14",
   technique="TLA+ delay-line spec (DelayLine.tla) + synchronisation-level model (MC_DelaySync.tla); real DelayFilter under the gate scheduler in real time, free-running producers, router MinDelay in exact virtual time and with jitter in real time; arrival/departure traces validated by TLC",
   text="TLC checks NeverPanics/LowerBound/NoDup on the two-step arrival + select-loop protocol of delay_filter.go (and that the pinned push-branch assertion is violable). The real DelayFilter runs (a) under the gate scheduler with a yield at every lock/channel/select of delay_filter.go and chunk_queue.go, arrivals racing timer expiry, delays 0..2 ms, (b) with free-running producers and stale chunk timestamps, and the router's MinDelay runs in exact virtual time (also with a slow destination NIC) and with MaxJitter in real time; every arrival, departure, recovered panic and the at-rest point are validated by TLC against DelayLine.tla: lower bound, arrival order (partial order for overlapping hand-ins), exactly once, unmodified, nothing left behind.",
   note="DelayFilter cannot run under an exact virtual clock (deadline.Before(now) spins), so its runs are real-time: stamps over-approximate spans (no false alarm from noise), liveness judged after waiting up to 3 s; schedules sampled within budget"),
 "C18": dict(engine="tlc-trace", design_ref="DESIGN.md §4 C18",
   technique="TLA+ specs (Bridge.tla, DPipe.tla) + TLC MC (Conservation, InOrder, CloseIsLocal) + transition tours and seeded scripts on the real Bridge (synctest bubble) and dpipe; traces validated by TLC",
   text="TLC checks conservation (delivered + in flight = written minus scripted drops, nothing duplicated or invented) on Bridge.tla and in-order/close-is-local on DPipe.tla; tours of both state graphs and seeded scripts (DropNextNWrites, ReorderNextNWrites used repeatedly, Drop, Reorder, Filter, Tick/Process, reads into short and long slices, both directions) run on the real code; every write, script call, delivery and the drained point are validated by TLC.",
   note="Bridge tours are sampled in the quick tier (all edges in thorough); ReorderNextNWrites is not re-armed mid-collection; payload tail checked by the harness"),
 "C10": dict(engine="tlc-trace", design_ref="DESIGN.md §4 C10",
   technique="TLA+ contract spec (ReadDeadline.tla) + TLC MC + transition-tour, directed and random histories replayed through 4 connection types in virtual time (and the vnet socket in real time); traces validated by TLC",
   text="One contract spec (timeout only if a non-zero deadline has passed; expiry sticky until reset, also with data queued; a read cannot stay blocked with data queued or once its deadline passed) is checked by TLC for implementability; every transition of its state graph plus directed histories (expiry while nobody reads then extended, two reads after expiry, re-arm after expiry) and seeded random histories run on packetio.Buffer, dpipe, Bridge endpoints and vnet UDP sockets in exact virtual time, and on the vnet socket and a udp listener connection in real time under the module's own timer semantics; in a further family the deadline is cleared or moved at the very instant it expires (the expiry callback races the setter; sleeping before or after arming, with and without yields); call/return instants and results are validated by TLC.",
   note="real-time runs keep every action at least a quarter tick (100 ms) away from any deadline and re-synchronise to the wall clock; udp listener connections need real sockets and run in real time only"),
 "C11": dict(engine="vrt-sched", design_ref="DESIGN.md §4 C11",
   technique="TLA+ spec with call/linearize/return and read-loop dispatch (UDPListener.tla) + TLC MC (OneConnPerRemote, Isolation) ; real listener over an in-memory socket under the gate scheduler + sequential histories over real loopback sockets with and without batch reads; traces validated by TLC (Judge=demux)",
   text="TLC checks one-connection-per-remote, isolation and backlog bounds on the spec for all interleavings of 3 datagrams and 4 client operations. The real listener (net.ListenUDP redirected to an in-memory socket, yields at every lock/channel/select/WaitGroup operation) runs concurrent scenario families under enumerated and random schedules plus seeded sequential histories (4 remotes, accept filter, backlog 2, close and re-open); the same histories run over real loopback sockets with batch reads off, on, and on with an undeliverable datagram left in the write batch when everything is closed (a Close that does not return is recorded as a blocked call); every send, call, return and quiescence point is validated by TLC: each datagram only to the connection of its remote, in order, first datagram readable, refused/overflowing datagrams create nothing, fresh connection after close.",
   note="datagram payloads are self-describing (id, remote, filler) and checked by the harness; loopback treated as loss-free for a few small datagrams; schedule space sampled within budget"),
 "C12": dict(engine="vrt-sched", design_ref="DESIGN.md §4 C12",
   technique="same spec and traces as C11, judged for lifecycle (Judge=life): socket open iff listener or an accepted connection is open, Accept after Close fails, accepted connections keep working, no package goroutine left",
   text="Scenario families race Accept, listener Close, connection Close, reads, writes and arrivals (0..2 accepted, 0..3 unaccepted connections) under the gate scheduler; at exact quiescence the in-memory port must be bound exactly when the spec says the socket is referenced, read loop and closer goroutine must be gone once it is not, every unreturned call must be legitimately waiting, writes on open accepted connections must succeed; the real-socket run checks that the OS port can be re-bound and that closing everything returns (also when the final flush of a write batch fails). Write batching of udp.BatchConn has its own specification (specs/batch) whose real-socket traces are reported as notes.",
   note="as C11"),
 "C17": dict(engine="vrt-sched", design_ref="DESIGN.md §4 C17",
   technique="TLA+ model of the ReadContext/WriteContext algorithm (MC_NetCtx.tla: NoLeftoverDeadline, EmptyHandedOnlyIfCancelled, PromptReturn) + observable contract spec (CtxOp.tla, Stream.tla); real wrappers over an observable fake connection under the gate scheduler with the cancellation placed at every synchronisation step, plus byte-conservation runs over net.Pipe; traces validated by TLC",
   text="TLC checks the watcher/operation protocol (and that a watcher which does not restore the deadline violates NoLeftoverDeadline). netctx.Conn, netctx.PacketConn and connctx, instrumented with yields, run read and write operations followed by probe operations with live contexts while the environment cancels and feeds data at every possible point (schedules enumerated exhaustively for the 2-operation scenarios; contexts with and without a far deadline; scenarios with fewer feeds than operations so that a cancelled operation cannot be rescued by data arriving later); every call, transfer, return (n, error class, deadline register) and quiescence point is validated by TLC: reported n equals bytes transferred, empty-handed only if cancelled, no deadline left behind, no watcher goroutine left, cancelled operations never stay blocked. Stream runs over net.Pipe with seeded cancellations and timeouts on both ends check that the bytes received continue the stream exactly and equal the bytes reported written.",
   note="the fake connection is the harness's; Go's random select choice is uncontrolled (DFS counts vary slightly between runs); packet flavour is exercised on the fake only"),
 "C02": dict(engine="tlc-trace", design_ref="DESIGN.md §4 C02",
   technique="TLA+ spec of RFC 4787 mapping (NAT.tla) + TLC MC (ExtInjective, ExtValid) + transition tours, lifetime grid, random multi-endpoint histories and a 16 500-mapping exhaustion history on the real translator in virtual time; traces validated by TLC (Judge=map)",
   text="TLC checks external-address injectivity/validity on NAT.tla for all 9 NAPT types and 1:1 mode over 2 internal x 3 remote endpoints; the tours, a grid of gaps around the mapping lifetime, seeded histories over 12 internal and 9+ remote endpoints whose textual addresses are prefixes of each other (routers with one or two WAN addresses; 1:1 pairs that share addresses between the local and the external side) and a history that takes the port counter twice round the dynamic range (expired mappings inherited by live ones whose former owners resume; flows kept alive whose ports must be passed over) run on the real newNAT/translateOutbound/translateInbound in virtual time; TLC validates every outbound translation: same key <=> same external address while alive, fresh address valid and not held by a live mapping, refresh on outbound use, drop only when 16384 mappings are alive, payload and destination untouched, 1:1 rewrite with port preserved.",
   note="in-package binding (names newNAT, translateOutbound, translateInbound, natConfig); inbound results are C03's; end-to-end binding through routers is C01's"),
 "C03": dict(engine="tlc-trace", design_ref="DESIGN.md §4 C03",
   technique="same spec and traces as C02, judged for filtering (Judge=filter): inbound admitted iff a live mapping owns the address and the sender matches a recorded permission; forwarded to the mapping's creator; refused inbound changes nothing",
   text="Inbound datagrams from contacted, same-IP-other-port and never-contacted remotes to live, expired, never-allocated and other-WAN-address targets are interleaved with outbound traffic and clock steps; TLC validates admission, the forwarding target, unchanged source/payload, that inbound traffic never prolongs a mapping, and 1:1 forwarding of paired/unpaired addresses.",
   note="as C02; external addresses are taken as given in this mode"),
 "C13": dict(engine="tlc-trace", design_ref="DESIGN.md §4 C13",
   technique="TLA+ spec of address assignment and socket binding (VNetAddr.tla) + TLC MC (AtMostOneCovers, NICsInSubnet) + transition tours through the four bind entry points, random bind/close histories with stale double-closes, 1001-bind ephemeral exhaustion, and 270-NIC static/automatic mixes on subnets from /24 to /30 (also ones that do not start at .0); traces validated by TLC",
   text="TLC checks that at most one open socket covers any address and that NIC addresses stay inside the subnet for all small histories; every transition of the bind/close graph is replayed on a real Net through ListenUDP/ListenPacket/DialUDP/Dial with wildcard, loopback, two host addresses and a foreign address, specific and zero ports, probing after each step which socket an inbound datagram would reach; seeded histories add stale double-closes and exhaust the 5000-5999 range on one address, the wildcard and a mix; on routers, seeded mixes of static (inside/outside the subnet, inside the automatic range, .0/.255) and automatic assignment attach 270 NICs (hosts and child routers); TLC validates every result: bind succeeds exactly when the ip is bindable and uncovered, chosen ephemeral port free and in range, failure only when none is free, close frees, demux to the covering socket, automatic address in subnet and unheld.",
   note="demux is observed on the host's socket table in-package (udpConns.find); an automatic assignment may report an error at any time; duplicate statics are not exercised"),
 "C01": dict(engine="tlc-trace", design_ref="DESIGN.md §4 C01",
   technique="TLA+ spec of routing + NAT over a router tree (VNet.tla) + TLC MC (ReplyReaches, StrangerFiltered for all 9 NAPT types) + generated topologies and traffic plans on the real vnet in virtual time, every router hop observed through a pass-through chunk filter; hop/recv/flush traces validated by TLC",
   text="TLC checks on the spec that a reply to the shown source reaches the original sender's socket and that strangers are filtered per the filtering behaviour, for every NAPT type. The real vnet is built (public API) as flat, single-NAT (one or two WAN addresses), nested to depth 3 and 1:1 topologies with seeded NAT types and optional router delays; concurrent senders write to every socket of the WAN hosts, receivers reply to every source they were shown, strangers/unbound ports/unroutable/loopback/hairpin/other-WAN-address destinations are probed, same-flow bursts run from concurrent senders, empty datagrams are sent; each router reports every datagram it dequeues, each socket what it reads; TLC follows each datagram hop by hop: correct next router and rewritten addresses, NAT decisions in the order the routers made them, delivery at most once, only at the covering socket, with the translated source and full intact payload, per-flow order, and nothing admitted missing when the queues have drained.",
   note="NAT lifetimes exceed the run; queues far below capacity; an inbound datagram racing the outbound one that permits it may go either way (judged only when the permission was confirmed); empty datagrams are identified out of band"),
}

def main():
    checks = []
    for pid in sorted(CHECKS):
        c = CHECKS[pid]
        checks.append({
            "property_id": pid,
            "quick_cmd": "bin/check %s --tier quick" % pid,
            "thorough_cmd": "bin/check %s --tier thorough" % pid,
            "evidence_file": "/verif/evidence/%s.json" % pid,
            "replay_cmd_template": "bin/check %s --replay {path}" % pid,
            "engine": c["engine"],
            "level_claimed": {"category": MC, "text": c["text"], "design_ref": c["design_ref"]},
            "level_note": c["note"],
            "technique": c["technique"],
        })
    allp = [json.loads(l)["id"] for l in open(os.path.join(ROOT, "properties.jsonl"))]
    na = []
    NA_REASON = {
        "C19": "data-race freedom is a property of memory accesses below the abstraction of a TLA+ state/transition specification; only the Go race detector decides it, which is a different technique (DESIGN.md §5)",
    }
    for p in allp:
        if p not in CHECKS:
            na.append({"property_id": p, "reason": NA_REASON.get(p, "check not built yet in this round (planned, see DESIGN.md §4); not claimed until its TLA+ spec and conformance harness exist")})
    m = {
        "version": 1,
        "setup_cmd": "python3 tools/setup.py",
        "hooks": {
            "guard": "verif",
            "enable": "checks rsync /repo's working tree to a scratch directory, copy harness/* test files (//go:build verif) and harness/vrt (as internal/vrt) into it and run `go test -tags verif`; nothing guarded is committed to /repo",
            "baseline_off_cmd": "cd /repo && go test -mod=mod -json -vet=off -count=1 -timeout 25m ./...",
            "source_commits": [],
            "add_only": True,
        },
        "engines": [
            {"name": "tlc-mc", "path": "specs/", "serves_properties": sorted(CHECKS), "kind_free_text": "TLC exhaustive model checking of the design-level TLA+ specs (MC_*.cfg) and state-graph dump for transition tours"},
            {"name": "tlc-trace", "path": "specs/*/Trace*.tla", "serves_properties": sorted(CHECKS), "kind_free_text": "TLC trace validation of NDJSON traces recorded from the real Go code (POSTCONDITION high-water mark)"},
            {"name": "go-harness", "path": "harness/", "serves_properties": sorted(CHECKS), "kind_free_text": "Go test files injected into a scratch copy of /repo: replay TLC tours / seeded drivers against the real packages and record traces"},
        ],
        "checks": checks,
        "not_applicable": na,
        "notes": "Exit codes: 0 held, 1 VIOLATION (real recorded trace rejected by the spec, or panic of code under test), 2 inconclusive (infrastructure). KNOWN_FINDINGS.json lists fixed defects and open findings.",
    }
    with open(os.path.join(ROOT, "MANIFEST.json"), "w") as f:
        json.dump(m, f, indent=1)
        f.write("\n")

if __name__ == "__main__":
    main()
