"""C02 (mapping) / C03 (filtering) — vnet NAT (specs/nat)."""
import json, os, random
import vlib
from vlib import log


def tour_ops(t):
    ops = []
    for lab in t:
        nm, a = vlib.parse_label(lab)
        if nm == "Cfg":
            ops.append({"op": "cfg", "mb": a[0], "fb": a[1]})
        elif nm == "Cfg1":
            ops.append({"op": "cfg1"})
        elif nm == "O":
            ops.append({"op": "O", "src": a[0], "dst": a[1]})
        elif nm == "I":
            ops.append({"op": "I", "src": a[0], "dst": a[1]})
        elif nm == "T":
            ops.append({"op": "T"})
        else:
            raise ValueError(lab)
    return ops


def describe(fl):
    sc = fl["scenario"]
    k = fl["matched"]
    r = sc[0]
    return ("NAT mode=%s mapping=%s filtering=%s lifetime=%dms: event %s is not allowed by NAT.tla after %s"
            % (r["mode"], r["mapb"], r["filtb"], r["life"], json.dumps(fl["first_unmatched"]), json.dumps(sc[max(1, k - 12):k])[:1500]))


def run(pid, tier, seed):
    rep = vlib.Report(pid, tier, seed)
    rng = random.Random(seed)
    cfg = "TraceNATMap.cfg" if pid == "C02" else "TraceNATFilter.cfg"
    rep.assumptions += [
        "binding is in-package: newNAT / translateOutbound / translateInbound on UDP chunks (the observation point the property names), virtual time; the end-to-end binding through routers is part of C01's harness",
        "a mapping used exactly one lifetime ago may be treated as alive or expired (the property leaves the boundary open)",
        "an outbound datagram may be dropped only when at least 16384 mappings are alive (size of the dynamic port range)",
    ]
    big = tier == "thorough"
    d = vlib.scratch("nat-")
    dot = os.path.join(d, "g.dot")
    r = vlib.tlc_must_pass(vlib.run_tlc("nat", "MC_NAT", "MC_NAT.cfg", args=["-dump", "dot,actionlabels", dot]), "MC_NAT")
    rep.add_tlc(r)
    if big:
        rep.add_tlc(vlib.tlc_must_pass(vlib.run_tlc("nat", "MC_NAT", "MC_NATBig.cfg", timeout=1800), "MC_NATBig"))
    rep.exhaustive = True
    inits, adj, ne = vlib.load_graph(dot)
    ts, cov, tot = vlib.tours(inits, adj, max_len=12, rng=rng, max_tours=None if big else 4000)
    rep.extra.update(graph_edges=ne, tour_edges_covered=cov, tours=len(ts))
    log("tours: %d covering %d/%d edges" % (len(ts), cov, tot))
    scen = os.path.join(d, "scen.ndjson")
    with open(scen, "w") as f:
        for t in ts:
            f.write(json.dumps(tour_ops(t)) + "\n")
    repo = vlib.repo_copy()
    vlib.inject(repo, {"vrt": "internal/vrt", "nat": "vnet"})
    lines = []
    for i, (run_re, env) in enumerate([
            ("^TestVerifNATTours$", {"VERIF_SCEN": scen}),
            ("^TestVerifNATLifetime$", {}),
            ("^TestVerifNATRandom$", {"VERIF_OPS": 300 if not big else 600, "VERIF_REPS": 1 if not big else 10}),
            ("^TestVerifNATExhaust$", {"VERIF_N": 16440, "VERIF_ALIVE": 1 if big else 0})]):
        tp = os.path.join(d, "t%d.trace" % i)
        e = {"VERIF_TRACE": tp, "VERIF_SEED": seed}
        e.update(env)
        rc, out, _ = vlib.go_test(repo, "./vnet/", run_re, env=e, synctest=True, timeout=1500)
        if rc != 0:
            k = vlib.classify_go_failure(out)
            if k == "sut-panic":
                rep.violation({"go_test_output": out[-4000:]}, "code under test panicked:\n" + out[-1500:])
                return rep.finish()
            raise vlib.Inconclusive("harness %s failed:\n%s" % (run_re, out[-3000:]))
        lines += vlib.read_ndjson(tp)
    rep.extra["trace_events"] = len(lines)
    n_ok, fails, st = vlib.validate_scenarios("nat", "TraceNAT", cfg, lines, batch=20000, heap="12g", timeout=1800)
    rep.traces = n_ok + len(fails)
    rep.extra["trace_validation_states"] = st
    scs = vlib.split_scenarios(lines)
    rep.sample(scs[len(scs) // 3][1][:8])
    rep.sample(scs[-1][1][:6])
    for fl in fails:
        rep.violation({"trace": fl["scenario"][max(0, fl["matched"] - 60):fl["matched"] + 2], "reset": fl["scenario"][0],
                       "matched": fl["matched"], "spec": "specs/nat/TraceNAT.tla", "cfg": cfg}, describe(fl))
    if not fails:
        key = "out" if pid == "C02" else "in"
        cand = [s[1] for s in scs if any(e["ev"] == key and e["res"] == "ok" for e in s[1]) and s[1][0]["mode"] == "napt"]
        s0 = [dict(e) for e in cand[len(cand) // 2]]
        for e in s0:
            if e["ev"] == key and e["res"] == "ok":
                if pid == "C02":
                    e["ext"] = [e["ext"][0], 70000]       # an invalid port
                else:
                    e["to"] = [e["to"][0], e["to"][1] + 1]  # forwarded to somebody else
                break
        ok, hw, _ = vlib.validate_trace("nat", "TraceNAT", cfg, s0)
        if ok:
            raise vlib.Inconclusive("binding self-test: corrupted trace accepted")
        rep.extra["binding_selftest"] = "corrupted translation rejected at line %d" % (hw + 1)
    return rep.finish()
