#!/usr/bin/env python3
"""Entry point of every check:  check.py <property> [--tier quick|thorough] [--replay path]"""
import argparse, importlib, os, sys, traceback
sys.path.insert(0, os.path.dirname(os.path.abspath(__file__)))
import vlib

FAMILY = {
    "C01": "fam_vnet",
    "C02": "fam_nat", "C03": "fam_nat",
    "C04": "fam_replay", "C05": "fam_replay",
    "C06": "fam_buffer", "C07": "fam_buffer",
    "C08": "fam_bufsync",
    "C09": "fam_deadline",
    "C10": "fam_rdl",
    "C20": "fam_xor",
    "C17": "fam_netctx",
    "C18": "fam_bridge",
    "C11": "fam_udp", "C12": "fam_udp",
    "C13": "fam_vnetaddr",
    "C14": "fam_delay",
    "C15": "fam_filters", "C16": "fam_filters",
}


def main():
    ap = argparse.ArgumentParser()
    ap.add_argument("pid")
    ap.add_argument("--tier", default=os.environ.get("VERIF_TIER", "quick"))
    ap.add_argument("--replay")
    a = ap.parse_args()
    seed = vlib.seed_from_env()
    mod = importlib.import_module(FAMILY[a.pid])
    try:
        if a.replay:
            rc = mod.replay(a.pid, a.replay, seed)
        else:
            rc = mod.run(a.pid, a.tier, seed)
    except vlib.Inconclusive as e:
        print("INCONCLUSIVE property=%s: %s" % (a.pid, e), flush=True)
        rc = 2
    except Exception:
        traceback.print_exc()
        print("INCONCLUSIVE property=%s: internal error" % a.pid, flush=True)
        rc = 2
    finally:
        vlib.cleanup()
    sys.exit(rc)


if __name__ == "__main__":
    main()
