"""C18 — dpipe and test.Bridge (specs/bridge)."""
import json, os, random
import vlib
from vlib import log


def bridge_ops(t):
    ops = []
    for lab in t:
        nm, a = vlib.parse_label(lab)
        if nm == "W":
            ops.append({"op": "W", "s": a[0], "len": 0})     # real length chosen below
        elif nm == "DN":
            ops.append({"op": "DN", "s": a[0], "n": a[1]})
        elif nm == "RN":
            ops.append({"op": "RN", "s": a[0], "n": a[1]})
        elif nm == "F":
            ops.append({"op": "F", "s": a[0], "f": a[1]})
        elif nm == "DA":
            ops.append({"op": "DA", "s": a[0], "off": a[1], "n": a[2]})
        elif nm == "RQ":
            ops.append({"op": "RQ", "s": a[0]})
        elif nm == "Tick":
            ops.append({"op": "T"})
        else:
            raise ValueError(lab)
    lens = [4, 9, 1200]
    k = 0
    for o in ops:
        if o["op"] == "W":
            o["len"] = lens[k % 3]
            k += 1
    return ops


def dpipe_ops(t):
    ops = []
    k = 0
    for lab in t:
        nm, a = vlib.parse_label(lab)
        if nm == "W":
            ops.append({"op": "W", "e": a[0], "len": [4, 0, 9, 1200][k % 4]})
            k += 1
        elif nm == "R":
            ops.append({"op": "R", "e": a[0], "n": {0: 4, 2: 6, 5: 4000}[a[1]]})
        elif nm == "C":
            ops.append({"op": "C", "e": a[0]})
        else:
            raise ValueError(lab)
    return ops


def describe(what, fl):
    sc = fl["scenario"]
    k = fl["matched"]
    return ("%s: event %s is not allowed by the specification after %s"
            % (what, json.dumps(fl["first_unmatched"]), json.dumps(sc[max(1, k - 14):k])[:1800]))


def run(pid, tier, seed):
    rep = vlib.Report(pid, tier, seed)
    rng = random.Random(seed)
    rep.assumptions += [
        "Bridge runs inside synctest bubbles with one reader goroutine per endpoint that is always waiting when Tick runs, so Tick delivers exactly the head of each non-empty queue",
        "ReorderNextNWrites is never re-armed while a collection is in progress (unspecified); Drop offsets stay inside the queue",
        "payload bytes beyond the first four are checked by the harness as a function of the first four (id)",
    ]
    big = tier == "thorough"
    d = vlib.scratch("bridge-")
    # design-level checks + tours
    r = vlib.tlc_must_pass(vlib.run_tlc("bridge", "MC_Bridge", "MC_Bridge.cfg" if big else "MC_BridgeTour.cfg"), "MC_Bridge")
    rep.add_tlc(r)
    dotb = os.path.join(d, "b.dot")
    r = vlib.tlc_must_pass(vlib.run_tlc("bridge", "MC_Bridge", "MC_BridgeTour.cfg",
                                        args=["-dump", "dot,actionlabels", dotb]), "MC_BridgeTour")
    rep.add_tlc(r)
    dotd = os.path.join(d, "d.dot")
    r = vlib.tlc_must_pass(vlib.run_tlc("bridge", "MC_DPipe", "MC_DPipe.cfg", args=["-dump", "dot,actionlabels", dotd]), "MC_DPipe")
    rep.add_tlc(r)
    rep.exhaustive = True
    inits, adj, ne = vlib.load_graph(dotb)
    tb, cov, tot = vlib.tours(inits, adj, max_len=24, rng=rng, max_tours=None if big else 3000)
    rep.extra.update(bridge_graph_edges=ne, bridge_tour_edges=cov, bridge_tours=len(tb))
    inits, adj, ne = vlib.load_graph(dotd)
    td, cov2, tot2 = vlib.tours(inits, adj, max_len=24, rng=rng)
    rep.extra.update(dpipe_graph_edges=ne, dpipe_tour_edges=cov2, dpipe_tours=len(td))
    log("bridge tours %d (%d/%d edges), dpipe tours %d (%d/%d edges)" % (len(tb), cov, tot, len(td), cov2, tot2))
    sb = os.path.join(d, "sb.ndjson")
    with open(sb, "w") as f:
        for t in tb:
            f.write(json.dumps(bridge_ops(t)) + "\n")
    sd = os.path.join(d, "sd.ndjson")
    with open(sd, "w") as f:
        for t in td:
            f.write(json.dumps(dpipe_ops(t)) + "\n")
    repo = vlib.repo_copy()
    vlib.inject(repo, {"vrt": "internal/vrt", "bridge": "test", "dpipe": "dpipe"})
    jobs = [
        ("./test/", "^TestVerifBridgeTours$", {"VERIF_SCEN": sb}, True, "b"),
        ("./test/", "^TestVerifBridgeRandom$", {"VERIF_RUNS": 40 if not big else 400, "VERIF_OPS": 120 if not big else 200}, True, "b"),
        ("./dpipe/", "^TestVerifDPipeTours$", {"VERIF_SCEN": sd}, False, "d"),
        ("./dpipe/", "^TestVerifDPipeRandom$", {"VERIF_RUNS": 40 if not big else 400}, False, "d"),
    ]
    traces = {"b": [], "d": []}
    for i, (pkg, run_re, env, st, kind) in enumerate(jobs):
        tp = os.path.join(d, "t%d.trace" % i)
        e = {"VERIF_TRACE": tp, "VERIF_SEED": seed}
        e.update(env)
        rc, out, _ = vlib.go_test(repo, pkg, run_re, env=e, synctest=st, timeout=1200)
        if rc != 0:
            k = vlib.classify_go_failure(out)
            if k == "sut-panic":
                rep.violation({"go_test_output": out[-4000:]}, "code under test panicked:\n" + out[-1500:])
                return rep.finish()
            if k != "stopped":
                raise vlib.Inconclusive("harness %s failed:\n%s" % (run_re, out[-3000:]))
        traces[kind] += vlib.read_ndjson(tp)
    rep.extra["trace_events"] = len(traces["b"]) + len(traces["d"])
    total_fail = 0
    for kind, mod, what in (("b", "TraceBridge", "test.Bridge"), ("d", "TraceDPipe", "dpipe")):
        n_ok, fails, st = vlib.validate_scenarios("bridge", mod, mod + ".cfg", traces[kind], batch=40000)
        rep.traces += n_ok + len(fails)
        rep.extra["trace_validation_states_" + kind] = st
        sc = vlib.split_scenarios(traces[kind])
        rep.sample(sc[len(sc) // 2][1][:10])
        for fl in fails:
            total_fail += 1
            rep.violation({"trace": fl["scenario"], "matched": fl["matched"], "spec": "specs/bridge/%s.tla" % mod},
                          describe(what, fl))
    if not total_fail:
        cand = [s[1] for s in vlib.split_scenarios(traces["b"]) if sum(1 for e in s[1] if e["ev"] == "recv") >= 2]
        s0 = [dict(e) for e in cand[len(cand) // 2]]
        i = [j for j, e in enumerate(s0) if e["ev"] == "recv"][0]
        s0.insert(i, dict(s0[i]))
        ok, hw, _ = vlib.validate_trace("bridge", "TraceBridge", "TraceBridge.cfg", s0)
        if ok:
            raise vlib.Inconclusive("binding self-test: duplicated delivery accepted")
        rep.extra["binding_selftest"] = "duplicated delivery rejected at line %d" % (hw + 1)
    return rep.finish()
