#!/usr/bin/env python3
"""Prints the markdown table of DESIGN.md section 8 from seeded/*/meta.json and seeded/RESULTS.json."""
import json, os, re, sys
ROOT = os.path.dirname(os.path.dirname(os.path.abspath(__file__)))
def short(t, n=150):
    t = re.sub(r"\s+", " ", t).strip()
    t = t.replace("|", "/")
    if len(t) <= n:
        return t
    cut = t[:n]
    return cut[:cut.rfind(" ")] + " …"
def main():
    res = json.load(open(os.path.join(ROOT, "seeded", "RESULTS.json")))
    pat = sys.argv[1] if len(sys.argv) > 1 else ""
    print("| change | what was changed | caught by (quick tier, seed 1) |")
    print("|--------|------------------|-------------------------------|")
    for name in sorted(res):
        if pat and pat not in name:
            continue
        d = os.path.join(ROOT, "seeded", name)
        summ = ""
        if os.path.exists(os.path.join(d, "meta.json")):
            summ = json.load(open(os.path.join(d, "meta.json"))).get("summary", "")
        elif os.path.exists(os.path.join(d, "subject.txt")):
            summ = "reverse of `" + open(os.path.join(d, "subject.txt")).read().strip() + "`"
        ch = res[name]["checks"]
        caught = [k for k, v in ch.items() if v == 1]
        missed = [k for k, v in ch.items() if v == 0]
        inc = [k for k, v in ch.items() if v == 2]
        cell = ", ".join(caught) if caught else "—"
        if missed:
            cell += " (not by " + ", ".join(missed) + ")"
        if inc:
            cell += " (inconclusive: " + ", ".join(inc) + ")"
        print("| %s | %s | %s |" % (name, short(summ), cell))
if __name__ == "__main__":
    main()
