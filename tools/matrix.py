#!/usr/bin/env python3
"""Runs every seeded change against the quick check of its own property (and related ones)
and records the outcome in seeded/RESULTS.json.  Applies patches to /repo one at a time."""
import json, os, subprocess, sys, re, time
ROOT = os.path.dirname(os.path.dirname(os.path.abspath(__file__)))
EXTRA = {"C04": ["C05"], "C05": ["C04"], "C06": ["C07"], "C07": ["C06"], "C02": ["C03"], "C03": ["C02", "C01"],
         "C11": ["C12"], "C12": ["C11"], "C08": ["C10"], "C10": ["C08"], "C09": ["C08"], "C01": ["C03"]}
ORIG = {"orig-replay": ["C04", "C05"], "orig-tbf": ["C15"], "orig-buffer": ["C08"], "orig-delay": ["C14"],
        "orig-bridge": ["C18"], "orig-vnetdl": ["C10"], "orig-udp": ["C12", "C11"], "orig-nat": ["C02"], "orig-assign": ["C13"]}
def main():
    only = sys.argv[1:]
    res_path = os.environ.get("VERIF_RESULTS", os.path.join(ROOT, "seeded", "RESULTS.json"))
    res = json.load(open(res_path)) if os.path.exists(res_path) else {}
    for name in sorted(os.listdir(os.path.join(ROOT, "seeded"))):
        d = os.path.join(ROOT, "seeded", name)
        if not os.path.isdir(d) or (only and name not in only):
            continue
        if name.startswith("orig-"):
            pids = ORIG[re.sub(r"-\d+$", "", name)]
        else:
            p = name.split("-")[0]
            pids = [p] + EXTRA.get(p, [])
        t0 = time.time()
        out = subprocess.run([sys.executable, os.path.join(ROOT, "tools", "mutest.py"), os.path.join(d, "patch.diff")] + pids,
                             capture_output=True, text=True, timeout=7200).stdout
        m = re.search(r"RESULT \S+ (\{.*\})", out)
        r = eval(m.group(1)) if m else {"error": out[-300:]}
        res[name] = {"checks": r, "wall_s": round(time.time() - t0)}
        print(name, r, flush=True)
        json.dump(res, open(res_path, "w"), indent=1, sort_keys=True)
if __name__ == "__main__":
    main()
