"""C04 / C05 — replay detector (specs/replay)."""
import json, os, random
import vlib
from vlib import log

LIMB = 1 << 22


def limbs_to_int(l):
    return (l[0] << 44) | (l[1] << 22) | l[2]


def describe(fail):
    sc = fail["scenario"]
    r = sc[0]
    k = fail["matched"]
    hist = [(limbs_to_int(e["s"]), e["ok"], e["acc"], e["fl"]) for e in sc[1:k + 1]]
    return ("detector kind=%s W=%d max=%d: after %d checks the real detector answered %s, which the "
            "specification does not allow; history (s, ok, accepted, latest-flag) = %s"
            % (r["kind"], r["W"], limbs_to_int(r["max"]), k - 1,
               json.dumps(fail["first_unmatched"]), hist[-12:]))


def describe_out(fail):
    sc = fail["scenario"]
    r = sc[0]
    k = fail["matched"]
    hist = [("chk", e["tok"], limbs_to_int(e["s"]), e["ok"]) if e["ev"] == "chk" else ("acc", e["tok"], e["fl"])
            for e in sc[1:k + 1]]
    return ("detector kind=%s W=%d max=%d, callbacks invoked later than the next Check: the real detector answered %s, "
            "which C04 does not allow; history (chk, token, number, ok) / (acc, token, flag) = %s"
            % (r["kind"], r["W"], limbs_to_int(r["max"]), json.dumps(fail["first_unmatched"]), hist[-14:]))


def run(pid, tier, seed):
    rep = vlib.Report(pid, tier, seed)
    rng = random.Random(seed)
    mode_cfg = "TraceReplaySafe.cfg" if pid == "C04" else "TraceReplayExact.cfg"
    rep.assumptions += [
        "TLC 1.8.0 and CommunityModules Json/IOUtils; Num.tla limb arithmetic checked against naturals at Base=4 (MC_Num)",
        "verdicts come only from traces recorded from the real replaydetector package built from /repo's working tree",
        "wrapping detector: the two distances nearest to half the sequence space are unconstrained, as the property allows",
    ]
    # 1. design-level model checking
    r = vlib.tlc_must_pass(vlib.run_tlc("replay", "MC_Num", "MC_Num.cfg", workers=2), "Num")
    rep.add_tlc(r)
    # implementation-level mask model (words of B bits): refines the window set with the repaired
    # top-word rule, and the pinned rule must violate it (vacuity guard)
    for cfg in ("MC_ReplayMask5.cfg", "MC_ReplayMask7.cfg", "MC_ReplayMask8.cfg"):
        rep.add_tlc(vlib.tlc_must_pass(vlib.run_tlc("replay", "ReplayMask", cfg, workers=2), cfg))
    rm = vlib.run_tlc("replay", "ReplayMask", "MC_ReplayMask7Pinned.cfg", workers=2)
    if "MaskIsWindow" not in rm.violated:
        raise vlib.Inconclusive("vacuity guard: the pinned top-word mask rule should violate MaskIsWindow")
    rep.notes.append("vacuity guard: ReplayMask with the pinned msbMask rule violates MaskIsWindow (W=7, B=4) as expected")
    if pid == "C04":
        # unbounded-depth complement (a note, never a verdict): Apalache discharges the inductive invariant of
        # ReplayMask (mask = accepted numbers inside the window) at W=7, B=4, Max=40, and refutes it for the pinned rule
        ind = {"base": vlib.run_apalache("replay", "ReplayMaskInd", ["--cinit=ConstInit", "--init=Init", "--inv=IndInv", "--length=0"]),
               "step": vlib.run_apalache("replay", "ReplayMaskInd", ["--cinit=ConstInit", "--init=IndInit", "--inv=IndInv", "--length=1"]),
               "step_pinned_rule": vlib.run_apalache("replay", "ReplayMaskInd", ["--cinit=ConstInitPinned", "--init=IndInit", "--inv=IndInv", "--length=1"])}
        rep.extra["apalache_inductive_invariant_ReplayMask"] = ind
        rep.notes.append("Apalache, ReplayMaskInd.IndInv: base %(base)s, inductive step %(step)s, step with the pinned top-word rule %(step_pinned_rule)s (expected: ok, ok, error)" % ind)
    d = vlib.scratch("graph-")
    dot = os.path.join(d, "g.dot")
    mc_cfg = "MC_Replay.cfg" if tier == "quick" else "MC_ReplayBig.cfg"
    r = vlib.tlc_must_pass(vlib.run_tlc("replay", "MC_Replay", "MC_Replay.cfg",
                                        args=["-dump", "dot,actionlabels", dot]), "MC_Replay")
    rep.add_tlc(r)
    rep.exhaustive = True
    if tier == "thorough":
        r2 = vlib.tlc_must_pass(vlib.run_tlc("replay", "MC_Replay", "MC_ReplayBig.cfg", timeout=1800), "MC_ReplayBig")
        rep.add_tlc(r2)
    # 2. tours of the state graph -> scenarios
    inits, adj, n_edges = vlib.load_graph(dot)
    max_tours = None
    ts, covered, total = vlib.tours(inits, adj, max_len=30, rng=rng, max_tours=max_tours)
    scen_path = os.path.join(d, "scen.ndjson")
    n_ops = 0
    with open(scen_path, "w") as f:
        for t in ts:
            name, a = vlib.parse_label(t[0])
            assert name == "Cfg", t[0]
            ops = []
            for lab in t[1:]:
                nm, args = vlib.parse_label(lab)
                assert nm == "Do"
                ops.append({"n": str(args[0]), "acc": args[1]})
            n_ops += len(ops)
            f.write(json.dumps({"cfg": {"kind": a[0], "W": a[1], "max": str(a[2])}, "ops": ops}) + "\n")
    rep.extra["graph_edges"] = n_edges
    rep.extra["tour_edges_covered"] = covered
    rep.extra["tours"] = len(ts)
    log("tours: %d covering %d/%d edges, %d ops" % (len(ts), covered, total, n_ops))
    # 3. run on the real code
    repo = vlib.repo_copy()
    vlib.inject(repo, {"vrt": "internal/vrt", "replay": "replaydetector"})
    tr_tour = os.path.join(d, "tour.trace")
    tr_drv = os.path.join(d, "driver.trace")
    rc, out, _ = vlib.go_test(repo, "./replaydetector/", "^TestVerifReplayTours$",
                              env={"VERIF_TRACE": tr_tour, "VERIF_SCEN": scen_path, "VERIF_SEED": seed})
    if rc != 0:
        return harness_failed(rep, out)
    rc, out, _ = vlib.go_test(repo, "./replaydetector/", "^TestVerifReplayDriver$",
                              env={"VERIF_TRACE": tr_drv, "VERIF_SEED": seed,
                                   "VERIF_OPS": 250 if tier == "quick" else 1200,
                                   "VERIF_REPS": 1 if tier == "quick" else 6})
    if rc != 0:
        return harness_failed(rep, out)
    # 3b. C04 also for callbacks invoked late (several outstanding checks): tours of MC_ReplayOut + a driver
    out_lines = []
    if pid == "C04":
        dot2 = os.path.join(d, "g2.dot")
        r3 = vlib.tlc_must_pass(vlib.run_tlc("replay", "MC_ReplayOut", "MC_ReplayOut.cfg",
                                             args=["-dump", "dot,actionlabels", dot2]), "MC_ReplayOut")
        rep.add_tlc(r3)
        inits2, adj2, ne2 = vlib.load_graph(dot2)
        ts2, cov2, tot2 = vlib.tours(inits2, adj2, max_len=24, rng=rng, max_tours=6000 if tier == "quick" else None)
        scen2 = os.path.join(d, "scen2.ndjson")
        with open(scen2, "w") as f:
            for t in ts2:
                name, a = vlib.parse_label(t[0])
                assert name == "Cfg", t[0]
                ops = []
                for lab in t[1:]:
                    nm, args = vlib.parse_label(lab)
                    ops.append({"op": nm.lower(), "k": args[0], "n": str(args[1]) if nm == "Chk" else "0"})
                f.write(json.dumps({"cfg": {"kind": a[0], "W": a[1], "max": str(a[2])}, "ops": ops}) + "\n")
        rep.extra["outstanding_graph_edges"] = ne2
        rep.extra["outstanding_tour_edges_covered"] = cov2
        log("outstanding-check tours: %d covering %d/%d edges" % (len(ts2), cov2, tot2))
        for run_re, env in (("^TestVerifReplayOutTours$", {"VERIF_SCEN": scen2}),
                            ("^TestVerifReplayOutDriver$", {"VERIF_OPS": 200 if tier == "quick" else 1500})):
            tp = os.path.join(d, "out-%s.trace" % ("tours" if "Tours" in run_re else "driver"))
            e = {"VERIF_TRACE": tp, "VERIF_SEED": seed}
            e.update(env)
            rc, out, _ = vlib.go_test(repo, "./replaydetector/", run_re, env=e)
            if rc != 0:
                return harness_failed(rep, out)
            out_lines += vlib.read_ndjson(tp)
    # 4. trace validation
    lines = vlib.read_ndjson(tr_tour) + vlib.read_ndjson(tr_drv)
    rep.extra["trace_events"] = len(lines)
    n_ok, fails, st = vlib.validate_scenarios("replay", "TraceReplay", mode_cfg, lines)
    rep.traces = n_ok + len(fails)
    rep.extra["trace_validation_states"] = st
    for sc in vlib.split_scenarios(lines)[:2]:
        rep.sample(sc[1][:6])
    for fl in fails:
        rep.violation({"trace": fl["scenario"], "matched": fl["matched"], "spec": "specs/replay/TraceReplay.tla",
                       "cfg": mode_cfg}, describe(fl))
    if out_lines:
        o_ok, o_fails, st2 = vlib.validate_scenarios("replay", "TraceReplayOut", "TraceReplayOut.cfg", out_lines)
        rep.traces += o_ok + len(o_fails)
        rep.extra["outstanding_trace_events"] = len(out_lines)
        for fl in o_fails:
            rep.violation({"trace": fl["scenario"], "matched": fl["matched"], "spec": "specs/replay/TraceReplayOut.tla"},
                          describe_out(fl))
        fails = fails + o_fails
    # 5. binding self-test (thorough): a corrupted trace must be rejected
    if not fails:
        sc = [s for s in vlib.split_scenarios(lines) if any(e.get("acc") for e in s[1][1:])]
        s0 = [dict(e) for e in sc[len(sc) // 2][1]]
        for e in s0[1:]:
            if e["acc"]:
                s0.append(dict(e))     # the same number accepted a second time
                break
        ok, hw, _ = vlib.validate_trace("replay", "TraceReplay", mode_cfg, s0)
        if ok:
            raise vlib.Inconclusive("binding self-test: corrupted trace was accepted")
        rep.extra["binding_selftest"] = "duplicated accept rejected at line %d" % (hw + 1)
    return rep.finish()


def harness_failed(rep, out):
    # a panic of the code under test inside a covered scenario is a violation; anything else is inconclusive
    if "panic:" in out and "replaydetector" in out:
        rep.violation({"go_test_output": out[-4000:]}, "code under test panicked:\n" + out[-1500:])
        return rep.finish()
    raise vlib.Inconclusive("harness failed:\n" + out[-3000:])
