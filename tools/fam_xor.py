"""C20 — utils/xor.XorBytes (specs/xor)."""
import json, os, random
import vlib
from vlib import log


def run(pid, tier, seed):
    rep = vlib.Report(pid, tier, seed)
    rep.assumptions += [
        "a pure function: the structural space (lengths x offsets x aliasing) is enumerated by TLC, contents are seeded; TLC recomputes the expected bytes itself (Bitwise ^^), the harness contains no second XOR",
        "on this toolchain XorBytes delegates to crypto/subtle (xor_generic.go); the !go1.20 word-wise and ARM variants cannot be built here and are not covered",
    ]
    d = vlib.scratch("graph-")
    dot = os.path.join(d, "g.dot")
    cfg = "MC_Xor.cfg" if tier == "quick" else "MC_XorBig.cfg"
    r = vlib.tlc_must_pass(vlib.run_tlc("xor", "MC_Xor", cfg, args=["-dump", "dot,actionlabels", dot]), "MC_Xor")
    rep.add_tlc(r)
    rep.exhaustive = True
    inits, adj, n_edges = vlib.load_graph(dot)
    scen = os.path.join(d, "scen.ndjson")
    ncase = 0
    with open(scen, "w") as f:
        for s in inits:
            for lab, _ in adj[s]:
                nm, a = vlib.parse_label(lab)
                f.write(json.dumps(dict(zip(["la", "lb", "oa", "ob", "od", "extra", "alias"], a))) + "\n")
                ncase += 1
    rep.extra["cases_enumerated_by_tlc"] = ncase
    log("cases: %d" % ncase)
    repo = vlib.repo_copy()
    vlib.inject(repo, {"vrt": "internal/vrt", "xor": "utils/xor"})
    traces = []
    for i, (run_re, env) in enumerate([("^TestVerifXorCases$", {"VERIF_SCEN": scen}),
                                       ("^TestVerifXorLong$", {"VERIF_RUNS": 150 if tier == "quick" else 1500})]):
        tp = os.path.join(d, "t%d.trace" % i)
        e = {"VERIF_TRACE": tp, "VERIF_SEED": seed}
        e.update(env)
        rc, out, _ = vlib.go_test(repo, "./utils/xor/", run_re, env=e)
        if rc != 0:
            kind = vlib.classify_go_failure(out)
            if kind == "sut-panic":
                rep.violation({"go_test_output": out[-4000:]}, "code under test panicked:\n" + out[-1500:])
                return rep.finish()
            raise vlib.Inconclusive("harness failed:\n" + out[-3000:])
        traces.append(vlib.read_ndjson(tp))
    # every call is independent: validate in chunks, each chunk one pseudo-scenario
    lines = []
    for t in traces:
        body = [e for e in t if e["ev"] == "xor"]
        step = 4000 if len(json.dumps(body[0])) < 2000 else 200
        for k in range(0, len(body), step):
            lines.append({"ev": "reset"})
            lines += body[k:k + step]
    rep.extra["trace_events"] = len(lines)
    n_ok, fails, st = vlib.validate_scenarios("xor", "TraceXor", "TraceXor.cfg", lines, batch=8000, heap="8g")
    rep.traces = sum(len(t) - 1 for t in traces)
    rep.extra["trace_validation_states"] = st
    rep.sample(traces[0][1])
    rep.sample(traces[0][len(traces[0]) // 2])
    for fl in fails:
        bad = fl["first_unmatched"]
        rep.violation({"call": bad, "spec": "specs/xor/TraceXor.tla"},
                      "XorBytes call not allowed by Xor.tla: %s" % json.dumps(bad)[:1200])
    if not fails:
        e = dict(traces[0][len(traces[0]) // 3])
        while not e["dst2"]:
            e = dict(traces[0][random.Random(seed).randrange(1, len(traces[0]))])
        e["dst2"] = [e["dst2"][0] ^ 1] + e["dst2"][1:]
        if e["alias"] == "a":
            e["a2"] = e["dst2"]
        if e["alias"] == "b":
            e["b2"] = e["dst2"]
        ok, hw, _ = vlib.validate_trace("xor", "TraceXor", "TraceXor.cfg", [{"ev": "reset"}, e])
        if ok:
            raise vlib.Inconclusive("binding self-test: corrupted call was accepted")
        rep.extra["binding_selftest"] = "flipped output bit rejected"
    return rep.finish()
