"""C17 — context-aware I/O: netctx.Conn, netctx.PacketConn, connctx (specs/netctx)."""
import json, os, random, subprocess
import vlib
from vlib import log


def describe(fl):
    sc = fl["scenario"]
    k = fl["matched"]
    return ("%s: event %s is not allowed by the specification after %s"
            % (json.dumps(sc[0]), json.dumps(fl["first_unmatched"]), json.dumps(sc[1:k])[:1500]))


def run(pid, tier, seed):
    rep = vlib.Report(pid, tier, seed)
    rep.assumptions += [
        "the wrapped connection is a harness-owned net.Conn/net.PacketConn whose deadline registers and transfers are observable; the wrappers (netctx/conn.go, netctx/packetconn.go, connctx/connctx.go) are instrumented with yield points so that the cancellation can fall at every synchronisation step",
        "byte conservation is checked over net.Pipe (stream flavour) in virtual time with seeded cancellations and timeouts on both ends",
        "an operation that transferred data may return it with a nil or a context error (either accepted)",
    ]
    r = vlib.tlc_must_pass(vlib.run_tlc("netctx", "MC_NetCtx", "MC_NetCtx.cfg", workers=2), "MC_NetCtx")
    rep.add_tlc(r)
    r = vlib.run_tlc("netctx", "MC_NetCtx", "MC_NetCtxBroken.cfg", workers=2)
    if "NoLeftoverDeadline" not in r.violated:
        raise vlib.Inconclusive("vacuity guard: a watcher that does not restore the deadline should violate NoLeftoverDeadline")
    rep.notes.append("vacuity guard: MC_NetCtxBroken violates NoLeftoverDeadline as expected")
    big = tier == "thorough"
    # (ops, feeds): with fewer feeds than operations a cancelled operation cannot be rescued by data arriving later
    shapes = ((2, 2), (1, 0), (2, 1)) if not big else ((2, 2), (3, 2), (1, 0), (2, 1), (3, 1))
    scs = [{"kind": k, "dir": d_, "ops": ops, "feeds": feeds, "deadline": dl}
           for k in ("conn", "connctx", "pconn") for d_ in ("r", "w") for ops, feeds in shapes
           for dl in (False, True)]
    # several callers on one wrapper at the same time (one of them under the context that is cancelled)
    scs += [{"kind": k, "dir": d_, "ops": 2, "feeds": feeds, "deadline": False, "par": True}
            for k in ("conn", "connctx", "pconn") for d_ in ("r", "w") for feeds in (1, 2)]
    d = vlib.scratch("ctx-")
    scen = os.path.join(d, "scen.ndjson")
    with open(scen, "w") as f:
        for s in scs:
            f.write(json.dumps(s) + "\n")
    repo = vlib.repo_copy()
    vlib.inject(repo, {"vrt": "internal/vrt", "netctx": "verifctx"})
    vlib.ensure_instr()
    p = subprocess.run([os.path.join(vlib.ROOT, "bin", "instr"), os.path.join(repo, "netctx", "conn.go"),
                        os.path.join(repo, "netctx", "packetconn.go"), os.path.join(repo, "connctx", "connctx.go")],
                       capture_output=True, text=True)
    if p.returncode != 0:
        raise vlib.Inconclusive("instr failed: " + p.stdout + p.stderr)
    rep.notes.append(p.stdout.strip().splitlines()[-1])
    stats = os.path.join(d, "stats.json")
    out_traces = {}
    for i, (run_re, env, key) in enumerate([
            ("^TestVerifCtxSync$", {"VERIF_SCEN": scen, "VERIF_STATS": stats, "VERIF_BUDGET": 500 if not big else 8000,
                                    "VERIF_RANDOM": 200 if not big else 3000}, "sync"),
            ("^TestVerifCtxStream$", {"VERIF_RUNS": 30 if not big else 300, "VERIF_BYTES": 1500 if not big else 6000}, "stream")]):
        tp = os.path.join(d, "t%d.trace" % i)
        e = {"VERIF_TRACE": tp, "VERIF_SEED": seed}
        e.update(env)
        rc, out, _ = vlib.go_test(repo, "./verifctx/", run_re, env=e, synctest=True, timeout=2400)
        if rc != 0:
            k = vlib.classify_go_failure(out)
            if k == "sut-panic":
                rep.violation({"go_test_output": out[-4000:]}, "code under test panicked:\n" + out[-1500:])
                return rep.finish()
            if k != "stopped":
                raise vlib.Inconclusive("harness %s failed:\n%s" % (run_re, out[-3000:]))
            rep.stopped = "watchdog: the run did not come to rest"
        out_traces[key] = vlib.read_ndjson(tp)
    st = json.load(open(stats)) if os.path.exists(stats) else {}
    rep.extra["schedules"] = {k: {"dfs": v[0], "random": v[1], "exhaustive": bool(v[2])} for k, v in st.items()}
    rep.extra["trace_events"] = sum(len(v) for v in out_traces.values())
    nfail = 0
    for key, mod in (("sync", "TraceCtx"), ("stream", "TraceStream")):
        n_ok, fails, nst = vlib.validate_scenarios("netctx", mod, mod + ".cfg", out_traces[key], batch=40000)
        rep.traces += n_ok + len(fails)
        rep.extra["trace_validation_states_" + key] = nst
        sc = vlib.split_scenarios(out_traces[key])
        rep.sample(sc[len(sc) // 2][1][:12])
        for fl in fails:
            nfail += 1
            rep.violation({"trace": fl["scenario"][:300], "matched": fl["matched"], "spec": "specs/netctx/%s.tla" % mod}, describe(fl))
    if not nfail:
        cand = [s[1] for s in vlib.split_scenarios(out_traces["sync"]) if any(e["ev"] == "ret" for e in s[1])]
        s0 = [dict(e) for e in cand[len(cand) // 2]]
        for e in s0:
            if e["ev"] == "ret":
                e["reg"] = "old"          # a deadline left behind
                break
        ok, hw, _ = vlib.validate_trace("netctx", "TraceCtx", "TraceCtx.cfg", s0)
        if ok:
            raise vlib.Inconclusive("binding self-test: leftover deadline accepted")
        rep.extra["binding_selftest"] = "leftover deadline rejected at line %d" % (hw + 1)
    return rep.finish()
