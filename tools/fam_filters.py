"""C15 (token bucket), C16 (loss filter) — vnet filters (specs/tbf, specs/loss)."""
import json, os, random
import vlib
from vlib import log


def go_run(rep, repo, run_re, env, synctest=False):
    rc, out, _ = vlib.go_test(repo, "./vnet/", run_re, env=env, synctest=synctest)
    if rc != 0:
        kind = vlib.classify_go_failure(out)
        if kind == "sut-panic":
            rep.violation({"go_test_output": out[-4000:]}, "code under test panicked:\n" + out[-1500:])
            return False
        raise vlib.Inconclusive("harness %s failed:\n%s" % (run_re, out[-3000:]))
    return True


def run_c16(pid, tier, seed):
    rep = vlib.Report(pid, tier, seed)
    rep.assumptions += [
        "the probability clause is an integer 7-sigma monitor over one stream of 10 000 datagrams per chance (false-alarm probability about 1e-11 per chance); TLC cannot prove a probability",
        "the filter is synchronous, so `forwarded during the hand-in call' is the complete observation; re-entrant use (the next NIC hands in further datagrams from within the call) is judged when the outermost call returns; concurrent callers are not exercised (the property quantifies over input streams)",
    ]
    r = vlib.tlc_must_pass(vlib.run_tlc("loss", "MC_Loss", "MC_Loss.cfg", workers=2), "MC_Loss")
    rep.add_tlc(r)
    rep.exhaustive = True
    d = vlib.scratch("tr-")
    repo = vlib.repo_copy()
    vlib.inject(repo, {"vrt": "internal/vrt", "vnetfilters": "vnet"})
    tp = os.path.join(d, "loss.trace")
    if not go_run(rep, repo, "^TestVerifLoss$", {"VERIF_TRACE": tp, "VERIF_SEED": seed,
                                                 "VERIF_ALL": 1 if tier == "thorough" else 0}):
        return rep.finish()
    lines = vlib.read_ndjson(tp)
    tp2 = os.path.join(d, "loss2.trace")
    if not go_run(rep, repo, "^TestVerifLossReentrant$", {"VERIF_TRACE": tp2, "VERIF_SEED": seed,
                                                          "VERIF_RUNS": 150 if tier != "thorough" else 1500}):
        return rep.finish()
    lines += vlib.read_ndjson(tp2)
    rep.extra["trace_events"] = len(lines)
    n_ok, fails, st = vlib.validate_scenarios("loss", "TraceLoss", "TraceLoss.cfg", lines, batch=45000)
    rep.traces = n_ok + len(fails)
    rep.extra["trace_validation_states"] = st
    scs = vlib.split_scenarios(lines)
    rep.sample(scs[3][1][:5])
    stats = {}
    for _, sc in scs:
        stats[sc[0]["chance"]] = stats.get(sc[0]["chance"], 0) + sum(1 for e in sc[1:] if e["ev"] == "arr" and not e["out"])
    rep.extra["drops_per_chance"] = stats
    for fl in fails:
        sc = fl["scenario"]
        k = fl["matched"]
        bad = fl["first_unmatched"]
        nd = sum(1 for e in sc[1:k] if e["ev"] == "arr" and not e["out"]) + sum(len(e["arrs"]) - len(e["out"]) for e in sc[1:k] if e["ev"] == "batch")
        rep.violation({"chance": sc[0]["chance"], "line": bad, "arrivals": k - 1, "drops": nd,
                       "spec": "specs/loss/TraceLoss.tla"},
                      "LossFilter chance=%d: after %d arrivals (%d dropped) the event %s is not allowed by LossFilter.tla"
                      % (sc[0]["chance"], k - 1, nd, json.dumps(bad)))
    if not fails:
        s0 = [dict(e) for e in scs[1][1]]       # chance 0: drop one
        s0[5]["out"] = []
        ok, hw, _ = vlib.validate_trace("loss", "TraceLoss", "TraceLoss.cfg", s0)
        if ok:
            raise vlib.Inconclusive("binding self-test: corrupted trace accepted")
        rep.extra["binding_selftest"] = "a drop at chance 0 rejected at line %d" % (hw + 1)
    return rep.finish()


def describe_tbf(fl):
    sc = fl["scenario"]
    k = fl["matched"]
    return ("TokenBucketFilter rate=%d B/ms burst=%d qcap=%d: event %s is not allowed by TBF.tla "
            "(burst+rate bound, FIFO, or discard-only-when-full); preceding events: %s"
            % (sc[0]["rate"], sc[0]["burst"], sc[0]["qcap"], json.dumps(fl["first_unmatched"]),
               json.dumps(sc[max(1, k - 10):k])))


def run_c15(pid, tier, seed):
    rep = vlib.Report(pid, tier, seed)
    rep.assumptions += [
        "virtual time (testing/synctest, go1.26.8, asynctimerchan=0); rates are multiples of 8000 bit/s so the automaton is integer-exact; 1 byte of slack for the implementation's float arithmetic",
        "run-time changes: a lowered rate/burst keeps counting for 1000 ms, a raised one refills the virtual bucket (most lenient reading of `also across run-time changes')",
        "whether an arriving datagram was kept is decided at the end of each run: rate and burst are raised through the public setters until the queue has run empty, and a datagram counts as kept exactly if it was forwarded by then; a discard is legal only if the queue was full on arrival (judged by the specification)",
    ]
    r = vlib.tlc_must_pass(vlib.run_tlc("tbf", "MC_TBF", "MC_TBF.cfg"), "MC_TBF")
    rep.add_tlc(r)
    # the oracle itself against the property's words: virtual bucket ever negative <=> some interval of the
    # history carries more than burst + rate * length (all departure patterns within the cfg's constants)
    rep.add_tlc(vlib.tlc_must_pass(vlib.run_tlc("tbf", "MC_TBFEquiv", "MC_TBFEquiv.cfg"), "MC_TBFEquiv"))
    rep.notes.append("MC_TBFEquiv: the conformance automaton's verdict (virtual bucket negative) coincides with the interval bound of the property on every history of up to 4 departures (rates 0..2, bursts 0/2/5)")
    rep.exhaustive = True
    d = vlib.scratch("tr-")
    repo = vlib.repo_copy()
    vlib.inject(repo, {"vrt": "internal/vrt", "vnetfilters": "vnet"})
    tp = os.path.join(d, "tbf.trace")
    big = tier == "thorough"
    if not go_run(rep, repo, "^TestVerifTBF$", {"VERIF_TRACE": tp, "VERIF_SEED": seed,
                                                "VERIF_RUNS": 80 if not big else 800,
                                                "VERIF_OPS": 100 if not big else 200}, synctest=True):
        return rep.finish()
    lines = vlib.read_ndjson(tp)
    rep.extra["trace_events"] = len(lines)
    n_ok, fails, st = vlib.validate_scenarios("tbf", "TraceTBF", "TraceTBF.cfg", lines, batch=40000)
    rep.traces = n_ok + len(fails)
    rep.extra["trace_validation_states"] = st
    scs = vlib.split_scenarios(lines)
    rep.sample(scs[0][1][:8])
    rep.extra["departures"] = sum(1 for e in lines if e["ev"] == "dep")
    rep.extra["discards"] = sum(1 for e in lines if e["ev"] == "arr" and not e["kept"])
    for fl in fails:
        rep.violation({"trace": fl["scenario"], "matched": fl["matched"], "spec": "specs/tbf/TraceTBF.tla"},
                      describe_tbf(fl))
    if not fails:
        cand = [s[1] for s in scs if sum(1 for e in s[1] if e["ev"] == "dep") > 3]
        s0 = [dict(e) for e in cand[len(cand) // 2]]
        i = [j for j, e in enumerate(s0) if e["ev"] == "dep"][1]
        s0.insert(i, dict(s0[i]))           # duplicate a departure
        ok, hw, _ = vlib.validate_trace("tbf", "TraceTBF", "TraceTBF.cfg", s0)
        if ok:
            raise vlib.Inconclusive("binding self-test: corrupted trace accepted")
        rep.extra["binding_selftest"] = "duplicated departure rejected at line %d" % (hw + 1)
    return rep.finish()


def run(pid, tier, seed):
    return {"C15": run_c15, "C16": run_c16}[pid](pid, tier, seed)
