"""C08 — packetio.Buffer under all interleavings (specs/buffer/BufferConc.tla)."""
import json, os, random, subprocess
import vlib
from vlib import log

R = {"op": "R", "n": 100}
Rs = {"op": "R", "n": 2}


def W(n):
    return {"op": "W", "n": n}


CL = {"op": "Cl"}


def DL(d):
    return {"op": "DL", "d": d}


def scenarios(tier):
    s = [
        ("r1w1", [[R], [W(5)]], False),
        ("r2w1", [[R], [R], [W(5)]], False),
        ("r1w2", [[R], [W(5)], [W(6)]], False),
        ("r2w2", [[R], [R], [W(5)], [W(6)]], False),
        ("r2ww", [[R], [R], [W(5), W(6)]], False),
        ("rr_w2", [[R, R], [W(5)], [W(6)]], False),
        ("r3w2", [[R], [R], [Rs], [W(5)], [W(6)]], False),
        ("rs_r_ww", [[Rs], [R], [W(5), W(6)]], False),
        ("rs_r_w_w", [[Rs], [R], [W(5)], [W(6)]], False),
        ("r2_close", [[R], [R], [CL]], False),
        ("r2w1_close", [[R], [R], [W(5)], [CL]], False),
        ("wwc_rrr", [[W(5), W(6), CL], [R, Rs, R]], False),
        ("r2_wwc", [[R], [R], [W(5), W(6), CL]], False),
        ("r3_wwwc", [[R], [R], [R], [W(5), W(6), W(7), CL]], False),
        ("r_dlpast", [[R], [DL("passed")]], False),
        ("r_w_dlpast", [[R], [W(5)], [DL("passed")]], False),
        ("r2_dlfuture_adv", [[R], [R], [DL("future")]], True),
        ("r_dlfuture_w_adv", [[R], [DL("future")], [W(5)]], True),
        ("sticky_reset", [[DL("passed"), R, DL("none"), R], [W(5)]], False),
        ("dlfuture_extend", [[DL("future"), R], [DL("none")], [W(7)]], True),
        ("dl_extend_race", [[R], [DL("future")], [DL("future")]], True),
        ("dl_clear_then_past", [[R], [DL("none"), DL("passed")]], False),
        ("dl_past_then_future", [[DL("passed"), DL("future"), R]], True),
        ("dl_future_clear_future", [[R], [DL("future"), DL("none"), DL("future")]], True),
    ]
    if tier == "thorough":
        s += [
            ("r3w3", [[R], [R], [R], [W(5)], [W(6)], [W(7)]], False),
            ("r2w3", [[R], [R], [W(5)], [W(6)], [W(7)]], False),
            ("r2w2_close", [[R], [R], [W(5)], [W(6)], [CL]], False),
            ("r2w2_dlfuture_adv", [[R], [R], [W(5)], [W(6)], [DL("future")]], True),
            ("rr_rr_www", [[R, R], [R, R], [W(5), W(6), W(7)]], False),
        ]
    return [{"name": n, "clients": c, "adv": a} for n, c, a in s]


def build(repo):
    vlib.inject(repo, {"vrt": "internal/vrt", "buffer": "packetio"})
    vlib.ensure_instr()
    p = subprocess.run([os.path.join(vlib.ROOT, "bin", "instr"),
                        os.path.join(repo, "packetio", "buffer.go"), os.path.join(repo, "deadline", "deadline.go")],
                       capture_output=True, text=True)
    if p.returncode != 0:
        raise vlib.Inconclusive("instr failed: " + p.stdout + p.stderr)
    return p.stdout


def describe(fl):
    sc = fl["scenario"]
    k = fl["matched"]
    return ("scenario %s: event %s is not allowed by BufferConc.tla after %s"
            % (sc[0].get("scenario"), json.dumps(fl["first_unmatched"]), json.dumps(sc[1:k])[:1500]))


def run(pid, tier, seed):
    rep = vlib.Report(pid, tier, seed)
    rep.assumptions += [
        "schedules are controlled at the granularity of every lock/channel/select operation of packetio/buffer.go and deadline/deadline.go (yield points inserted at check time by tools/instr; critical sections are atomic steps)",
        "virtual time and exact quiescence from testing/synctest (go1.26.8, asynctimerchan=0); Go's random choice among ready select cases is not controlled",
        "a read called before its deadline expired may still return a packet (either outcome accepted)",
    ]
    for cfg in ("MC_BufferSync.cfg", "MC_BufferSyncNoClose.cfg"):
        r = vlib.tlc_must_pass(vlib.run_tlc("buffer", "MC_BufferSync", cfg, workers=4), cfg)
        rep.add_tlc(r)
    r = vlib.run_tlc("buffer", "MC_BufferSync", "MC_BufferSyncPinnedNoClose.cfg", workers=4)
    if "NoStuckReader" not in r.violated:
        raise vlib.Inconclusive("vacuity guard: the protocol without re-posting should violate NoStuckReader")
    rep.notes.append("vacuity guard: MC_BufferSyncPinnedNoClose (protocol of the pinned tree) violates NoStuckReader as expected")
    scs = scenarios(tier)
    d = vlib.scratch("sync-")
    scen = os.path.join(d, "scen.ndjson")
    with open(scen, "w") as f:
        for s in scs:
            f.write(json.dumps(s) + "\n")
    repo = vlib.repo_copy()
    rep.notes.append(build(repo).strip().splitlines()[-1])
    tp = os.path.join(d, "t.trace")
    stats = os.path.join(d, "stats.json")
    big = tier == "thorough"
    rc, out, _ = vlib.go_test(repo, "./packetio/", "^TestVerifBufferSync$", synctest=True, timeout=3000,
                              env={"VERIF_TRACE": tp, "VERIF_SCEN": scen, "VERIF_SEED": seed, "VERIF_STATS": stats,
                                   "VERIF_BUDGET": 1200 if not big else 20000,
                                   "VERIF_RANDOM": 300 if not big else 4000})
    if rc != 0:
        kind = vlib.classify_go_failure(out)
        if kind == "sut-panic":
            rep.violation({"go_test_output": out[-4000:]}, "code under test panicked:\n" + out[-1500:])
            return rep.finish()
        if kind != "stopped":
            raise vlib.Inconclusive("harness failed:\n" + out[-3000:])
        rep.stopped = "watchdog: the run did not come to rest"
    st = json.load(open(stats)) if os.path.exists(stats) else {}
    rep.extra["schedules"] = {k: {"dfs": v[0], "random": v[1], "exhaustive": bool(v[2])} for k, v in st.items()}
    rep.extra["schedules_total"] = sum(v[0] + v[1] for v in st.values())
    lines = vlib.read_ndjson(tp)
    # free-running writers/readers with real parallelism (no scheduler, uninstrumented copy)
    repo2 = vlib.repo_copy()
    vlib.inject(repo2, {"vrt": "internal/vrt", "buffer": "packetio"})
    tp2 = os.path.join(d, "t2.trace")
    rc, out, _ = vlib.go_test(repo2, "./packetio/", "^TestVerifBufferConcurrent$", synctest=False, timeout=900,
                              env={"VERIF_TRACE": tp2, "VERIF_SEED": seed, "VERIF_RUNS": 12 if not big else 60,
                                   "VERIF_N": 60 if not big else 150})
    if rc != 0:
        kind = vlib.classify_go_failure(out)
        if kind == "sut-panic":
            rep.violation({"go_test_output": out[-4000:]}, "code under test panicked:\n" + out[-1500:])
            return rep.finish()
        raise vlib.Inconclusive("free-running harness failed:\n" + out[-3000:])
    free = vlib.read_ndjson(tp2)
    rep.extra["free_running_events"] = len(free)
    lines += free
    rep.extra["trace_events"] = len(lines)
    n_ok, fails, nst = vlib.validate_scenarios("buffer", "TraceBufferConc", "TraceBufferConc.cfg", lines,
                                               batch=40000, heap="8g")
    rep.traces = n_ok + len(fails)
    rep.extra["trace_validation_states"] = nst
    allsc = vlib.split_scenarios(lines)
    rep.sample(allsc[len(allsc) // 2][1])
    byname = {s["name"]: s for s in scs}
    for fl in fails:
        sc = fl["scenario"]
        sched = [e for e in sc if e["ev"] == "quiesce"]
        rep.violation({"scenario": byname.get(sc[0].get("scenario")), "sched": sched[0]["sched"] if sched else [],
                       "trace": sc, "matched": fl["matched"], "spec": "specs/buffer/TraceBufferConc.tla"}, describe(fl))
    if not fails:
        cand = [s[1] for s in allsc if any(e["ev"] == "ret" and e["op"] == "R" and e["res"] == "ok" for e in s[1])]
        s0 = [dict(e) for e in cand[len(cand) // 2]]
        # drop the return of one successful read and claim it is still blocked at quiescence
        i = [j for j, e in enumerate(s0) if e["ev"] == "ret" and e["op"] == "R" and e["res"] == "ok"][0]
        pid_ = s0[i]["p"]
        del s0[i]
        s0 = [e for e in s0 if not (e["ev"] in ("call", "ret") and e["p"] // 10 == pid_ // 10 and e["p"] > pid_)]
        for e in s0:
            if e["ev"] == "quiesce":
                e["blocked"] = sorted(set(e["blocked"]) | {pid_})
        ok, hw, _ = vlib.validate_trace("buffer", "TraceBufferConc", "TraceBufferConc.cfg", s0)
        if ok:
            raise vlib.Inconclusive("binding self-test: a reader left parked with a packet buffered was accepted")
        rep.extra["binding_selftest"] = "reader parked while a packet is buffered rejected at line %d" % (hw + 1)
    return rep.finish()


def replay(pid, path, seed):
    rep = vlib.Report(pid, "quick", seed)
    rp = json.load(open(path))["replay"]
    d = vlib.scratch("replay-")
    rf = os.path.join(d, "replay.json")
    json.dump({"scenario": rp["scenario"], "sched": rp["sched"]}, open(rf, "w"))
    repo = vlib.repo_copy()
    build(repo)
    tp = os.path.join(d, "t.trace")
    rc, out, _ = vlib.go_test(repo, "./packetio/", "^TestVerifBufferSyncReplay$", synctest=True,
                              env={"VERIF_TRACE": tp, "VERIF_REPLAY": rf})
    if rc != 0:
        raise vlib.Inconclusive("replay failed:\n" + out[-2000:])
    lines = vlib.read_ndjson(tp)
    n_ok, fails, nst = vlib.validate_scenarios("buffer", "TraceBufferConc", "TraceBufferConc.cfg", lines)
    rep.traces = 1
    rep.states = rep.transitions = max(nst, 1)
    rep.sample(lines)
    for fl in fails:
        rep.violation({"scenario": rp["scenario"], "sched": rp["sched"], "trace": fl["scenario"]}, describe(fl))
    return rep.finish()
