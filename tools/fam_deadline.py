"""C09 — deadline.Deadline (specs/deadline)."""
import json, os, random
import vlib
from vlib import log


def describe(fail):
    sc = fail["scenario"]
    k = fail["matched"]
    return ("deadline.Deadline (%s runtime timer): after %d steps the real Deadline showed %s, which "
            "Deadline.tla does not allow; preceding steps: %s"
            % (sc[0].get("mode"), k - 1, json.dumps(fail["first_unmatched"]), json.dumps(sc[max(1, k - 8):k])))


def run(pid, tier, seed):
    rep = vlib.Report(pid, tier, seed)
    rng = random.Random(seed)
    rep.assumptions += [
        "virtual time: harness runs inside testing/synctest bubbles (go1.26.8, GODEBUG=asynctimerchan=0)",
        "fake-timer binding places a harness timer in the unexported `timer` field and calls the unexported timeout callback (as the property's anchor describes); if those identifiers disappear only the public-API binding (real timers, no delayed callbacks) decides",
    ]
    r = vlib.tlc_must_pass(vlib.run_tlc("deadline", "MC_Deadline", "MC_Deadline.cfg"), "MC_Deadline")
    d = vlib.scratch("graph-")
    dot = os.path.join(d, "g.dot")
    r = vlib.tlc_must_pass(vlib.run_tlc("deadline", "MC_Deadline", "MC_Deadline.cfg",
                                        args=["-dump", "dot,actionlabels", dot]), "MC_Deadline")
    rep.add_tlc(r)
    rep.exhaustive = True
    # unbounded complement (a note, never a verdict): Apalache discharges the inductive invariant that implies the
    # three C09 invariants with no bound on clock, Set times, Set calls, callbacks in flight or history length, and
    # refutes it for a Run that lets a stale callback signal Done
    step = ["--init=IndInit", "--next=IndNext", "--inv=IndInv", "--length=1"]
    ind = {"base": vlib.run_apalache("deadline", "DeadlineInd", ["--init=DInit", "--next=IndNext", "--inv=IndInv", "--length=0"]),
           "step": vlib.run_apalache("deadline", "DeadlineInd", step),
           "implies_C09": vlib.run_apalache("deadline", "DeadlineInd", ["--init=IndInit", "--next=IndNext", "--inv=C09", "--length=0"]),
           "step_stale_callback_signals": vlib.run_apalache("deadline", "DeadlineInd", ["--init=IndInit", "--next=BadNext", "--inv=IndInv", "--length=1"])}
    rep.extra["apalache_inductive_invariant_Deadline"] = ind
    rep.notes.append("Apalache, DeadlineInd.IndInv: base %(base)s, inductive step %(step)s, IndInv => C09 %(implies_C09)s, "
                     "step with a stale callback that signals %(step_stale_callback_signals)s (expected: ok, ok, ok, error)" % ind)
    inits, adj, n_edges = vlib.load_graph(dot)
    ts, covered, total = vlib.tours(inits, adj, max_len=24, rng=rng)
    scen = os.path.join(d, "scen.ndjson")
    with open(scen, "w") as f:
        for t in ts:
            ops = []
            for lab in t:
                nm, a = vlib.parse_label(lab)
                if nm == "S":
                    ops.append({"op": "S", "k": a[0]})
                elif nm == "A":
                    ops.append({"op": "A"})
                elif nm == "D":
                    ops.append({"op": "D"})
                elif nm in ("R", "Run"):
                    ops.append({"op": "R"})
                else:
                    raise ValueError(lab)
            f.write(json.dumps(ops) + "\n")
    rep.extra.update(graph_edges=n_edges, tour_edges_covered=covered, tours=len(ts))
    log("tours: %d covering %d/%d edges" % (len(ts), covered, total))
    repo = vlib.repo_copy()
    vlib.inject(repo, {"vrt": "internal/vrt", "deadline": "deadline"})
    big = tier == "thorough"
    jobs = [
        ("^TestVerifDeadlineTours$", {"VERIF_SCEN": scen}, True),
        ("^TestVerifDeadlineFakeRandom$", {"VERIF_RUNS": 60 if not big else 600, "VERIF_OPS": 120 if not big else 300}, True),
        ("^TestVerifDeadlineReal$", {"VERIF_RUNS": 60 if not big else 600, "VERIF_OPS": 80 if not big else 200}, False),
    ]
    traces = []
    tags = "verif"
    fake_ok = True
    for i, (run_re, env, needs_fake) in enumerate(jobs):
        if needs_fake and not fake_ok:
            continue
        tp = os.path.join(d, "t%d.trace" % i)
        e = {"VERIF_TRACE": tp, "VERIF_SEED": seed}
        e.update(env)
        rc, out, _ = vlib.go_test(repo, "./deadline/", run_re, env=e, tags=tags, synctest=True)
        if rc != 0 and needs_fake and fake_ok and ("[build failed]" in out or "verif-infra" in out):
            fake_ok = False
            tags = "verif,verif_nofake"
            rep.notes.append("fake-timer binding not applicable to this tree (%s); public-API binding only"
                             % ("build failed" if "[build failed]" in out else "fake timer replaced"))
            continue
        if rc != 0:
            kind = vlib.classify_go_failure(out)
            if kind == "sut-panic":
                rep.violation({"go_test_output": out[-4000:]}, "code under test panicked:\n" + out[-1500:])
                return rep.finish()
            raise vlib.Inconclusive("harness %s failed:\n%s" % (run_re, out[-3000:]))
        traces += vlib.read_ndjson(tp)
    rep.extra["trace_events"] = len(traces)
    n_ok, fails, st = vlib.validate_scenarios("deadline", "TraceDeadline", "TraceDeadline.cfg", traces)
    rep.traces = n_ok + len(fails)
    rep.extra["trace_validation_states"] = st
    for sc in vlib.split_scenarios(traces)[:2]:
        rep.sample(sc[1][:8])
    for fl in fails:
        rep.violation({"trace": fl["scenario"], "matched": fl["matched"], "spec": "specs/deadline/TraceDeadline.tla"},
                      describe(fl))
    if not fails:
        scs = [s[1] for s in vlib.split_scenarios(traces) if any(e.get("closed") for e in s[1])]
        s0 = [dict(e) for e in scs[len(scs) // 2]]
        for e in s0:
            if e.get("closed"):
                e["closed"] = False
                e["err"] = False
                break
        ok, hw, _ = vlib.validate_trace("deadline", "TraceDeadline", "TraceDeadline.cfg", s0)
        if ok:
            raise vlib.Inconclusive("binding self-test: corrupted trace was accepted")
        rep.extra["binding_selftest"] = "suppressed Done signal rejected at line %d" % (hw + 1)
    return rep.finish()
