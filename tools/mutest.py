#!/usr/bin/env python3
"""Apply a seeded change to /repo, run the quick checks of the given properties, undo it.
usage: mutest.py <patch.diff> <pid> [<pid> ...] [--tier quick]"""
import subprocess, sys, os
REPO = os.environ.get("VERIF_REPO", "/repo")
def main():
    patch = os.path.abspath(sys.argv[1]); pids = [a for a in sys.argv[2:] if not a.startswith("--")]
    tier = "thorough" if "--thorough" in sys.argv else "quick"
    st = subprocess.run(["git", "-C", REPO, "status", "--porcelain", "--untracked-files=no"], capture_output=True, text=True).stdout
    if st.strip():
        print("refusing: /repo not clean"); sys.exit(3)
    r = subprocess.run(["git", "-C", REPO, "apply", patch])
    if r.returncode != 0:
        print("patch does not apply"); sys.exit(3)
    res = {}
    try:
        for pid in pids:
            env = dict(os.environ)
            env.setdefault("VERIF_EVIDENCE", "/var/tmp/verif-evidence-seeded")   # keep evidence/ for runs on the real tree
            p = subprocess.run(["python3", os.path.join(os.path.dirname(__file__), "check.py"), pid, "--tier", tier],
                               capture_output=True, text=True, env=env)
            res[pid] = p.returncode
            tail = [l for l in p.stdout.splitlines() if l.startswith(("VIOLATION", "PASS", "FAIL", "INCONCLUSIVE", "KNOWN"))]
            print(pid, "rc=%d" % p.returncode, " | ".join(tail[:3])[:400])
            if p.returncode == 2:
                print(p.stdout[-1500:])
    finally:
        subprocess.run(["git", "-C", REPO, "checkout", "--", "."])
    print("RESULT", os.path.basename(os.path.dirname(patch)), res)
if __name__ == "__main__":
    main()
