"""C14 — delay elements: vnet.DelayFilter and Router.MinDelay (specs/delay)."""
import json, os, subprocess
import vlib
from vlib import log


def scenarios(tier):
    s = []
    for dus in (0, 1, 500, 2000):
        for arr in (1, 2, 3):
            if tier == "quick" and arr == 3 and dus not in (0, 500):
                continue
            s.append({"name": "d%d_a%d" % (dus, arr), "delay_us": dus, "arrivals": arr, "sleeps": 2 if arr < 3 else 3})
    return s


def describe(fl):
    sc = fl["scenario"]
    k = fl["matched"]
    return ("delay element %s (delay %d us): event %s is not allowed by DelayLine.tla after %s"
            % (sc[0].get("scenario"), sc[0]["delay"], json.dumps(fl["first_unmatched"]), json.dumps(sc[max(1, k - 10):k])[:1500]))


def run(pid, tier, seed):
    rep = vlib.Report(pid, tier, seed)
    rep.assumptions += [
        "DelayFilter: real time (its loop compares deadline.Before(now) and would spin under an exact virtual clock), schedules controlled by the gate scheduler at every lock/channel/select of delay_filter.go and chunk_queue.go, quiescence judged from a full goroutine dump; lower bound uses arrival stamp before hand-in and departure stamp in the next NIC (over-approximates, so scheduling noise cannot cause an alarm); liveness judged only after waiting up to 3 s",
        "Router MinDelay/MaxJitter: exact virtual time (testing/synctest), free-running goroutines",
        "concurrent hand-ins are unordered; a hand-in that returned before another began is ordered before it",
    ]
    r = vlib.tlc_must_pass(vlib.run_tlc("delay", "MC_DelaySync", "MC_DelaySync.cfg"), "MC_DelaySync")
    rep.add_tlc(r)
    r = vlib.run_tlc("delay", "MC_DelaySync", "MC_DelaySyncPinned.cfg")
    if "NeverPanics" not in r.violated:
        raise vlib.Inconclusive("vacuity guard: the pinned push-branch assertion should be violable in MC_DelaySyncPinned")
    rep.notes.append("vacuity guard: MC_DelaySyncPinned violates NeverPanics as expected")
    d = vlib.scratch("delay-")
    scs = scenarios(tier)
    scen = os.path.join(d, "scen.ndjson")
    with open(scen, "w") as f:
        for s in scs:
            f.write(json.dumps(s) + "\n")
    repo = vlib.repo_copy()
    vlib.inject(repo, {"vrt": "internal/vrt", "vnetfilters": "vnet"})
    vlib.ensure_instr()
    p = subprocess.run([os.path.join(vlib.ROOT, "bin", "instr"), os.path.join(repo, "vnet", "delay_filter.go"),
                        os.path.join(repo, "vnet", "chunk_queue.go")], capture_output=True, text=True)
    if p.returncode != 0:
        raise vlib.Inconclusive("instr failed: " + p.stdout + p.stderr)
    big = tier == "thorough"
    stats = os.path.join(d, "stats.json")
    jobs = [
        ("^TestVerifDelayFilterSync$", {"VERIF_SCEN": scen, "VERIF_STATS": stats,
                                        "VERIF_BUDGET": 150 if not big else 600, "VERIF_RANDOM": 100 if not big else 600}, False),
        ("^TestVerifDelayFilterFree$", {"VERIF_N": 300 if not big else 3000}, False),
        ("^TestVerifRouterDelay$", {"VERIF_RUNS": 10 if not big else 100, "VERIF_N": 60 if not big else 200}, True),
        ("^TestVerifRouterJitter$", {"VERIF_N": 40 if not big else 400}, False),
    ]
    lines = []
    for i, (run_re, env, st) in enumerate(jobs):
        tp = os.path.join(d, "t%d.trace" % i)
        e = {"VERIF_TRACE": tp, "VERIF_SEED": seed}
        e.update(env)
        rc, out, _ = vlib.go_test(repo, "./vnet/", run_re, env=e, synctest=st, timeout=2400)
        if rc != 0:
            kind = vlib.classify_go_failure(out)
            if kind == "sut-panic":
                rep.violation({"go_test_output": out[-4000:]}, "code under test panicked:\n" + out[-1500:])
                return rep.finish()
            raise vlib.Inconclusive("harness %s failed:\n%s" % (run_re, out[-3000:]))
        lines += vlib.read_ndjson(tp)
    st = json.load(open(stats))
    rep.extra["schedules"] = {k: {"dfs": v[0], "random": v[1], "exhaustive": bool(v[2])} for k, v in st.items()}
    rep.extra["trace_events"] = len(lines)
    n_ok, fails, nst = vlib.validate_scenarios("delay", "TraceDelay", "TraceDelay.cfg", lines, batch=40000)
    rep.traces = n_ok + len(fails)
    rep.extra["trace_validation_states"] = nst
    allsc = vlib.split_scenarios(lines)
    rep.sample(allsc[0][1][:8])
    rep.sample(allsc[-1][1][:8])
    for fl in fails:
        sc = fl["scenario"]
        rep.violation({"trace": sc[:400], "matched": fl["matched"], "spec": "specs/delay/TraceDelay.tla"}, describe(fl))
    if not fails:
        cand = [s[1] for s in allsc if sum(1 for e in s[1] if e["ev"] == "dep") >= 2]
        s0 = [dict(e) for e in cand[len(cand) // 2]]
        i = [j for j, e in enumerate(s0) if e["ev"] == "dep"][0]
        s0[i]["t"] = -1       # a departure before its arrival + delay
        ok, hw, _ = vlib.validate_trace("delay", "TraceDelay", "TraceDelay.cfg", s0)
        if ok:
            raise vlib.Inconclusive("binding self-test: early departure accepted")
        rep.extra["binding_selftest"] = "early departure rejected at line %d" % (hw + 1)
    return rep.finish()
