"""C01 — virtual network end to end (specs/vnet)."""
import json, os, random
import vlib
from vlib import log


def describe(fl):
    sc = fl["scenario"]
    k = fl["matched"]
    bad = fl["first_unmatched"]
    rel = [e for e in sc[1:k] if e.get("id") == (bad or {}).get("id")] if bad else []
    return ("virtual network (routers %s): event %s is not allowed by VNet.tla; earlier events of that datagram: %s"
            % (json.dumps([{k_: r[k_] for k_ in ("id", "parent", "mode", "mapb", "filtb")} for r in sc[0]["routers"]]),
               json.dumps(bad), json.dumps(rel)[:1200]))


def run(pid, tier, seed):
    rep = vlib.Report(pid, tier, seed)
    rep.assumptions += [
        "public API only (NewRouter/AddRouter/NewNet/AddNet/ListenPacket/AddChunkFilter); every router reports each datagram it takes from its queue through a pass-through chunk filter, so NAT decisions are validated in the order the routers made them",
        "virtual time, free-running sender and router goroutines; synctest.Wait is the flush; NAT lifetimes exceed the run (expiry is C02/C03); queues stay far below capacity",
        "datagrams that need a NAT permission are only sent after the datagram that creates it has been delivered (no race between a parent's inbound translation and the child's outbound one is judged)",
        "empty datagrams carry no id: they are sent one at a time and identified out of band",
    ]
    r = vlib.tlc_must_pass(vlib.run_tlc("vnet", "MC_VNet", "MC_VNet.cfg", workers=4), "MC_VNet")
    rep.add_tlc(r)
    rep.exhaustive = True
    big = tier == "thorough"
    d = vlib.scratch("vnet-")
    repo = vlib.repo_copy()
    vlib.inject(repo, {"vrt": "internal/vrt", "vnet": "vnet"})
    tp = os.path.join(d, "t.trace")
    rc, out, _ = vlib.go_test(repo, "./vnet/", "^TestVerifVNet$", synctest=True, timeout=2400,
                              env={"VERIF_TRACE": tp, "VERIF_SEED": seed, "VERIF_REPS": 9 if not big else 63,
                                   "VERIF_BURST": 20 if not big else 60})
    if rc != 0:
        k = vlib.classify_go_failure(out)
        if k == "sut-panic":
            rep.violation({"go_test_output": out[-4000:]}, "code under test panicked:\n" + out[-1500:])
            return rep.finish()
        raise vlib.Inconclusive("harness failed:\n" + out[-3000:])
    lines = vlib.read_ndjson(tp)
    rep.extra["trace_events"] = len(lines)
    rep.extra["datagrams"] = sum(1 for e in lines if e["ev"] == "send")
    rep.extra["deliveries"] = sum(1 for e in lines if e["ev"] == "recv")
    rep.extra["hops"] = sum(1 for e in lines if e["ev"] == "hop")
    n_ok, fails, st = vlib.validate_scenarios("vnet", "TraceVNet", "TraceVNet.cfg", lines, batch=15000, heap="12g", timeout=1800)
    rep.traces = n_ok + len(fails)
    rep.extra["trace_validation_states"] = st
    scs = vlib.split_scenarios(lines)
    rep.sample([e for e in scs[1][1] if e["ev"] != "reset"][:10])
    for fl in fails:
        rep.violation({"trace_tail": fl["scenario"][max(0, fl["matched"] - 40):fl["matched"] + 2], "topology": fl["scenario"][0],
                       "matched": fl["matched"], "spec": "specs/vnet/TraceVNet.tla"}, describe(fl))
    # spec growth beyond C01's text (chunk queue, router start/stop life cycle, resolver): validated against
    # specs/vnetmisc; a rejection there is reported as a note, never as a C01 violation
    vlib.inject(repo, {"vnetmisc": "vnet"})
    tp2 = os.path.join(d, "misc.trace")
    rc, out, _ = vlib.go_test(repo, "./vnet/", "^TestVerifMisc$", synctest=True, timeout=900,
                              env={"VERIF_TRACE": tp2, "VERIF_SEED": seed, "VERIF_RUNS": 20 if not big else 200})
    if rc == 0:
        r2 = vlib.tlc_must_pass(vlib.run_tlc("vnetmisc", "MC_Misc", "MC_Misc.cfg", workers=2), "MC_Misc")
        rep.add_tlc(r2)
        misc = vlib.read_ndjson(tp2)
        m_ok, m_fails, _ = vlib.validate_scenarios("vnetmisc", "TraceMisc", "TraceMisc.cfg", misc, batch=40000)
        rep.extra["aux_scenarios_validated"] = m_ok
        rep.extra["aux_model_drift"] = [{"kind": f["scenario"][0].get("kind"), "event": f["first_unmatched"]} for f in m_fails]
        for f in m_fails:
            rep.notes.append("NOTE model-drift (%s): %s" % (f["scenario"][0].get("kind"), json.dumps(f["first_unmatched"])))
            log("NOTE model-drift (not part of C01): %s %s" % (f["scenario"][0].get("kind"), json.dumps(f["first_unmatched"])))
    else:
        rep.notes.append("auxiliary harness (queue/life cycle/resolver) did not run: " + out[-300:])
    # vnet.UDPProxy between virtual clients and a real loopback server (specs/proxy), notes only
    try:
        vlib.inject(repo, {"proxy": "vnet"})
        tp3 = os.path.join(d, "proxy.trace")
        rc, out, _ = vlib.go_test(repo, "./vnet/", "^TestVerifUDPProxy$", synctest=False, timeout=600,
                                  env={"VERIF_TRACE": tp3, "VERIF_SEED": seed, "VERIF_RUNS": 4 if not big else 24})
        if rc == 0:
            r3 = vlib.run_tlc("proxy", "MC_Proxy", "MC_Proxy.cfg", workers=2)
            if r3.ok:
                rep.add_tlc(r3)
            pl = vlib.read_ndjson(tp3)
            p_ok, p_fails, _ = vlib.validate_scenarios("proxy", "TraceProxy", "TraceProxy.cfg", pl, batch=40000)
            rep.extra["aux_udpproxy_runs_validated"] = p_ok
            rep.extra["aux_udpproxy_drift"] = [f["first_unmatched"] for f in p_fails]
            for f in p_fails:
                rep.notes.append("NOTE model-drift (UDPProxy, not part of C01): " + json.dumps(f["first_unmatched"]))
                log("NOTE model-drift (UDPProxy, not part of C01): " + json.dumps(f["first_unmatched"]))
        else:
            rep.notes.append("auxiliary UDPProxy harness did not run: " + out[-300:])
    except vlib.Inconclusive as e:     # an auxiliary run never decides C01
        rep.notes.append("auxiliary UDPProxy run inconclusive: " + str(e)[:200])
    if not fails:
        s0 = [dict(e) for e in scs[1][1]]
        i = [j for j, e in enumerate(s0) if e["ev"] == "recv"][3]
        s0.insert(i + 1, dict(s0[i]))       # the same datagram delivered twice
        ok, hw, _ = vlib.validate_trace("vnet", "TraceVNet", "TraceVNet.cfg", s0)
        if ok:
            raise vlib.Inconclusive("binding self-test: duplicate delivery accepted")
        rep.extra["binding_selftest"] = "duplicate delivery rejected at line %d" % (hw + 1)
    return rep.finish()
