"""C06 / C07 — packetio.Buffer sequential semantics (specs/buffer)."""
import json, os, random
import vlib
from vlib import log


def describe(fail, judge):
    sc = fail["scenario"]
    k = fail["matched"]
    hist = [{kk: v for kk, v in e.items()} for e in sc[max(1, k - 8):k]]
    return ("packetio.Buffer (%s rules): after %d operations the real buffer produced %s, which "
            "PacketBuffer.tla does not allow; preceding operations: %s"
            % (judge, k - 1, json.dumps(fail["first_unmatched"]), json.dumps(hist)))


def tour_ops(t):
    ops = []
    for lab in t:
        nm, a = vlib.parse_label(lab)
        if nm == "W":
            ops.append({"op": "W", "n": 65536 if a[0] == 9 else a[0]})
        elif nm == "R":
            ops.append({"op": "R", "n": a[0]})
        elif nm == "LC":
            ops.append({"op": "LC", "n": a[0]})
        elif nm == "LS":
            ops.append({"op": "LS", "n": a[0]})
        elif nm == "Cl":
            ops.append({"op": "Cl"})
        elif nm == "DL":
            ops.append({"op": "DL", "d": a[0]})
        else:
            raise ValueError(lab)
    return ops


def run(pid, tier, seed):
    rep = vlib.Report(pid, tier, seed)
    rng = random.Random(seed)
    judge = "fifo" if pid == "C06" else "limits"
    cfg = "TraceBufferFifo.cfg" if pid == "C06" else "TraceBufferLimits.cfg"
    rep.assumptions += [
        "payload bytes beyond the first four are a function of the first four; the harness checks them (intact) and TLC checks order, boundaries, the leading bytes, results and occupancy",
        "the ring geometry (head/tail/len(data)) is read in-package only to steer operations, never as an oracle; if those fields disappear the steering sub-check is skipped",
        "sequential histories here; interleavings of readers/writers are C08's harness",
    ]
    r = vlib.tlc_must_pass(vlib.run_tlc("buffer", "MC_Buffer", "MC_Buffer.cfg"), "MC_Buffer")
    rep.add_tlc(r)
    # geometry-level model of the ring (head/tail/wrap/growth transcribed from buffer.go, scaled
    # constants): decoding the ring always yields the abstract FIFO
    r = vlib.tlc_must_pass(vlib.run_tlc("buffer", "RingBuffer", "MC_RingBuffer.cfg" if tier == "thorough" else "MC_RingBufferQuick.cfg",
                                        timeout=1800), "RingBuffer")
    rep.add_tlc(r)
    d = vlib.scratch("graph-")
    dot = os.path.join(d, "g.dot")
    r = vlib.tlc_must_pass(vlib.run_tlc("buffer", "MC_Buffer", "MC_BufferTour.cfg",
                                        args=["-dump", "dot,actionlabels", dot]), "MC_BufferTour")
    rep.add_tlc(r)
    rep.exhaustive = True
    inits, adj, n_edges = vlib.load_graph(dot)
    ts, covered, total = vlib.tours(inits, adj, max_len=30, rng=rng,
                                    max_tours=None)
    scen = os.path.join(d, "scen.ndjson")
    with open(scen, "w") as f:
        for t in ts:
            f.write(json.dumps(tour_ops(t)) + "\n")
    rep.extra.update(graph_edges=n_edges, tour_edges_covered=covered, tours=len(ts))
    log("tours: %d covering %d/%d edges" % (len(ts), covered, total))
    repo = vlib.repo_copy()
    vlib.inject(repo, {"vrt": "internal/vrt", "buffer": "packetio"})
    traces = []
    big = tier == "thorough"
    jobs = [
        ("^TestVerifBufferTours$", {"VERIF_SCEN": scen}),
        ("^TestVerifBufferRandom$", {"VERIF_RUNS": 30 if not big else 200, "VERIF_OPS": 150 if not big else 300}),
        ("^TestVerifBufferGeometry$", {"VERIF_MAXRING": 8192 if not big else 4 * 1024 * 1024}),
        ("^TestVerifBufferLimits$", {"VERIF_BIG": 1 if big else 0}),
    ]
    tags = "verif"
    for i, (run_re, env) in enumerate(jobs):
        tp = os.path.join(d, "t%d.trace" % i)
        e = {"VERIF_TRACE": tp, "VERIF_SEED": seed}
        e.update(env)
        rc, out, _ = vlib.go_test(repo, "./packetio/", run_re, env=e, tags=tags, timeout=900)
        if rc != 0 and "VerifGeom" in run_re + out and tags == "verif" and ("undefined" in out or "has no field" in out):
            rep.notes.append("ring fields not accessible: geometry steering skipped (verif_nogeom)")
            tags = "verif,verif_nogeom"
            rc, out, _ = vlib.go_test(repo, "./packetio/", run_re, env=e, tags=tags, timeout=900)
        if rc != 0:
            kind = vlib.classify_go_failure(out)
            if kind == "sut-panic":
                rep.violation({"go_test_output": out[-4000:]}, "code under test panicked:\n" + out[-1500:])
                return rep.finish()
            if kind != "stopped":
                raise vlib.Inconclusive("harness %s failed:\n%s" % (run_re, out[-3000:]))
            rep.notes.append("driver %s stopped after recording a non-returning call" % run_re)
        for ln in out.splitlines():
            if "steered=" in ln:
                rep.notes.append(ln.strip())
        traces += vlib.read_ndjson(tp)
        os.remove(tp)
    rep.extra["trace_events"] = len(traces)
    n_ok, fails, st = vlib.validate_scenarios("buffer", "TraceBuffer", cfg, traces, batch=40000, heap="8g")
    rep.traces = n_ok + len(fails)
    rep.extra["trace_validation_states"] = st
    for sc in vlib.split_scenarios(traces)[:2]:
        rep.sample(sc[1][:6])
    for fl in fails:
        rep.violation({"trace": fl["scenario"], "matched": fl["matched"], "spec": "specs/buffer/TraceBuffer.tla",
                       "cfg": cfg}, describe(fl, judge))
    if pid == "C06":
        # the concurrent clause: free-running writers and readers (real parallelism), linearized on the FIFO
        tp2 = os.path.join(d, "free.trace")
        rc, out, _ = vlib.go_test(repo, "./packetio/", "^TestVerifBufferConcurrent$", tags=tags, timeout=900,
                                  env={"VERIF_TRACE": tp2, "VERIF_SEED": seed, "VERIF_RUNS": 12 if not big else 60,
                                       "VERIF_N": 60 if not big else 150})
        if rc != 0:
            if vlib.classify_go_failure(out) == "sut-panic":
                rep.violation({"go_test_output": out[-4000:]}, "code under test panicked:\n" + out[-1500:])
                return rep.finish()
            raise vlib.Inconclusive("free-running harness failed:\n" + out[-3000:])
        free = vlib.read_ndjson(tp2)
        rep.extra["free_running_events"] = len(free)
        n2, fails2, st2 = vlib.validate_scenarios("buffer", "TraceBufferConc", "TraceBufferConc.cfg", free, batch=40000, heap="8g")
        rep.traces += n2 + len(fails2)
        for fl in fails2:
            fails.append(fl)
            rep.violation({"trace": fl["scenario"][max(0, fl["matched"] - 40):fl["matched"] + 2], "matched": fl["matched"],
                           "spec": "specs/buffer/TraceBufferConc.tla"},
                          "concurrent writers/readers: event %s does not linearize on the FIFO (BufferConc.tla)" % json.dumps(fl["first_unmatched"]))
    if not fails:
        # binding self-test: corrupt one recorded field
        scs = [s[1] for s in vlib.split_scenarios(traces)
               if any(e["ev"] == "R" and e["res"] == "ok" and e["n"] > 0 for e in s[1])]
        s0 = [dict(e) for e in scs[len(scs) // 2]]
        for e in s0:
            if e["ev"] == "R" and e["res"] == "ok" and e["n"] > 0:
                if judge == "fifo":
                    e["b4"] = [(e["b4"][0] + 1) % 256] + e["b4"][1:]
                else:
                    e["count"] += 1
                break
        ok, hw, _ = vlib.validate_trace("buffer", "TraceBuffer", cfg, s0)
        if ok:
            raise vlib.Inconclusive("binding self-test: corrupted trace was accepted")
        rep.extra["binding_selftest"] = "corrupted field rejected at line %d" % (hw + 1)
    return rep.finish()
