#!/usr/bin/env python3
"""setup_cmd: offline sanity of the tool chain; parses every spec with SANY."""
import os, subprocess, sys, shutil, tempfile
sys.path.insert(0, os.path.dirname(os.path.abspath(__file__)))
ROOT = os.path.dirname(os.path.dirname(os.path.abspath(__file__)))
def main():
    for tool in ("java", "go", "go1.26.8", "rsync", "python3"):
        if not shutil.which(tool):
            print("missing tool", tool); sys.exit(1)
    bad = 0
    d = tempfile.mkdtemp(prefix="verif-setup-")
    try:
        specs = os.path.join(ROOT, "specs")
        for fam in sorted(os.listdir(specs)):
            fd = os.path.join(specs, fam)
            if not os.path.isdir(fd):
                continue
            w = os.path.join(d, fam); os.makedirs(w)
            for f in os.listdir(fd):
                shutil.copy(os.path.join(fd, f), w)
            for f in os.listdir(os.path.join(specs, "common")):
                shutil.copy(os.path.join(specs, "common", f), w)
            for f in sorted(os.listdir(fd)):
                if f.endswith(".tla"):
                    p = subprocess.run(["java", "-cp", "/opt/veriftools/tla/tla2tools.jar:/opt/veriftools/tla/CommunityModules-deps.jar", "tla2sany.SANY", f], cwd=w, stdout=subprocess.PIPE, stderr=subprocess.STDOUT, text=True)
                    if p.returncode != 0 or "*** Errors" in p.stdout or "Fatal errors" in p.stdout:
                        print("SANY failed for", fam, f); print(p.stdout[-1500:]); bad += 1
    finally:
        shutil.rmtree(d, ignore_errors=True)
    os.makedirs(os.path.join(ROOT, "evidence"), exist_ok=True)
    import vlib
    vlib.ensure_instr()
    print("setup ok" if not bad else "setup FAILED")
    sys.exit(1 if bad else 0)
if __name__ == "__main__":
    main()
