"""C10 — read deadlines on every connection type (specs/rdl)."""
import json, os, random
import vlib
from vlib import log

S = lambda k: {"op": "S", "k": k}
A = {"op": "A"}
ARR = {"op": "Arr"}
R = {"op": "R"}

DIRECTED = [
    [S("p1"), R, A, R, R, A, R],                    # expiry persists: every later read times out
    [S("p1"), A, A, S("p3"), R, ARR],               # expired while nobody was reading, then extended
    [S("p1"), A, S("none"), R, ARR, R, ARR],        # expired, then cleared
    [R, S("past")],                                 # a blocked read is released by a past deadline
    [ARR, S("p1"), A, R, S("none"), R],             # sticky even with data queued; reset returns the data
    [S("p3"), R, A, S("p3"), A, ARR],               # extended while blocked: no timeout at the old instant
    [S("p1"), R, A, S("p1"), R, A, R],              # re-armed after expiry, expires again
    [S("past"), R, S("p3"), R, A, A, R],            # past, then future
    [S("p1"), A, S("far"), R, A, ARR, R, A, S("far2"), A, ARR],   # deadlines centuries ahead never expire
    [S("far2"), R, A, A, S("p1"), A],               # ... and can be replaced by a near one
]


def describe(fl):
    sc = fl["scenario"]
    k = fl["matched"]
    return ("%s connection (%s): event %s is not allowed by ReadDeadline.tla after %s"
            % (sc[0].get("adapter"), sc[0].get("mode", "virtual time"), json.dumps(fl["first_unmatched"]),
               json.dumps(sc[1:k])[:1500]))


def run(pid, tier, seed):
    rep = vlib.Report(pid, tier, seed)
    rng = random.Random(seed)
    rep.assumptions += [
        "adapters: packetio.Buffer, dpipe, test.Bridge endpoint, vnet UDP socket through their public APIs in exact virtual time (testing/synctest); the vnet socket additionally in real time under the module's own timer-channel semantics (GODEBUG default of go.mod's go 1.20) with 150 ms margins; udp listener connections (real loopback sockets) in real time as well, alternating SetReadDeadline and SetDeadline",
        "the harness acts at even half-ticks and places deadlines at odd ones, so no action coincides with an expiry; one reader at a time",
        "a Bridge endpoint only receives a message when Tick finds its reader waiting, so data arrives there only while a read is pending",
    ]
    r = vlib.tlc_must_pass(vlib.run_tlc("rdl", "MC_RDL", "MC_RDL.cfg", workers=4), "MC_RDL")
    d = vlib.scratch("rdl-")
    dot = os.path.join(d, "g.dot")
    r = vlib.tlc_must_pass(vlib.run_tlc("rdl", "MC_RDL", "MC_RDL.cfg", workers=4, args=["-dump", "dot,actionlabels", dot]), "MC_RDL")
    rep.add_tlc(r)
    rep.exhaustive = True
    inits, adj, ne = vlib.load_graph(dot)
    ts, cov, tot = vlib.tours(inits, adj, max_len=20, rng=rng)
    hist = []
    for t in ts:
        ops = []
        for lab in t:
            nm, a = vlib.parse_label(lab)
            if nm == "S":
                ops.append(S(a[0]))
            elif nm == "A":
                ops.append(A)
            elif nm == "Arr":
                ops.append(ARR)
            elif nm == "R":
                ops.append(R)
        hist.append(ops)
    hist = DIRECTED + hist
    rep.extra.update(graph_edges=ne, tour_edges_covered=cov, tours=len(ts))
    log("tours: %d covering %d/%d edges" % (len(ts), cov, tot))
    scen = os.path.join(d, "scen.ndjson")
    with open(scen, "w") as f:
        for h in hist:
            f.write(json.dumps(h) + "\n")
    scen_rt = os.path.join(d, "scen_rt.ndjson")
    with open(scen_rt, "w") as f:
        for h in DIRECTED + ([] if tier == "quick" else hist[len(DIRECTED):len(DIRECTED) + 40]):
            f.write(json.dumps(h) + "\n")
    repo = vlib.repo_copy()
    vlib.inject(repo, {"vrt": "internal/vrt", "rdl": "verifrdl"})
    lines = []
    for i, (run_re, env, st, mode) in enumerate([
            ("^TestVerifRDLVirtual$", {"VERIF_SCEN": scen, "VERIF_RANDOM": 30 if tier == "quick" else 400}, True, "virtual"),
            ("^TestVerifRDLBoundary$", {"VERIF_REPS": 3 if tier == "quick" else 12}, True, "virtual, setter at the expiry instant"),
            ("^TestVerifRDLRealtime$", {"VERIF_SCEN": scen_rt}, False, "real time, asynctimerchan=1")]):
        tp = os.path.join(d, "t%d.trace" % i)
        e = {"VERIF_TRACE": tp, "VERIF_SEED": seed}
        e.update(env)
        rc, out, _ = vlib.go_test(repo, "./verifrdl/", run_re, env=e, synctest=st, timeout=1500)
        if rc != 0:
            k = vlib.classify_go_failure(out)
            if k == "sut-panic":
                rep.violation({"go_test_output": out[-4000:]}, "code under test panicked:\n" + out[-1500:])
                return rep.finish()
            raise vlib.Inconclusive("harness %s failed:\n%s" % (run_re, out[-3000:]))
        tl = vlib.read_ndjson(tp)
        for e_ in tl:
            if e_["ev"] == "reset":
                e_["mode"] = mode
        lines += tl
    rep.extra["trace_events"] = len(lines)
    n_ok, fails, st = vlib.validate_scenarios("rdl", "TraceRDL", "TraceRDL.cfg", lines, batch=40000, max_fail=8)
    rep.traces = n_ok + len(fails)
    rep.extra["trace_validation_states"] = st
    scs = vlib.split_scenarios(lines)
    per = {}
    for _, sc in scs:
        per[sc[0]["adapter"] + "/" + sc[0]["mode"]] = per.get(sc[0]["adapter"] + "/" + sc[0]["mode"], 0) + 1
    rep.extra["histories_per_adapter"] = per
    rep.sample(scs[0][1])
    rep.sample(scs[-1][1])
    for fl in fails:
        rep.violation({"trace": fl["scenario"], "matched": fl["matched"], "spec": "specs/rdl/TraceRDL.tla"}, describe(fl))
    if not fails:
        cand = [s[1] for s in scs if any(e["ev"] == "ret" and e["res"] == "timeout" for e in s[1])]
        s0 = [dict(e) for e in cand[len(cand) // 2]]
        for e in s0:
            if e["ev"] == "ret" and e["res"] == "timeout":
                e["at"] = -2000000000      # a timeout long before any deadline of the run
                break
        ok, hw, _ = vlib.validate_trace("rdl", "TraceRDL", "TraceRDL.cfg", s0)
        if ok:
            raise vlib.Inconclusive("binding self-test: early timeout accepted")
        rep.extra["binding_selftest"] = "early timeout rejected at line %d" % (hw + 1)
    return rep.finish()
