module verif/instr

go 1.20
