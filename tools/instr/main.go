// Command instr is the source-to-source pass of the /verif schedule-control harness.
// It rewrites (in place, in a scratch copy of pion/transport) the given Go files so that
// every synchronisation operation becomes a scheduling point:
//
//   - before a statement that performs a channel send/receive, a select, close(ch),
//     x.Lock/RLock, wg.Wait, once.Do, cond.Wait or time.Sleep:   vrt.Yield("<file>:<line>")
//   - x.Lock()/x.RLock() become vrt.DoLock(label, x.TryLock, x.Lock): gate, lock, Acquired
//     (in the scheduler's fine mode the lock is taken cooperatively with TryLock at the gate)
//   - before x.Unlock()/x.RUnlock() (also in defer):               vrt.Released()
//
// With no controller installed vrt.Yield is one atomic load. Nothing else changes.
package main

import (
	"bytes"
	"fmt"
	"go/ast"
	"go/format"
	"go/parser"
	"go/token"
	"os"
	"path/filepath"
	"strconv"
)

const vrtPath = "github.com/pion/transport/v3/internal/vrt"

type rewriter struct {
	fset *token.FileSet
	file string
	n    int
}

func main() {
	total := 0
	args := os.Args[1:]
	fakeUDP := false
	if len(args) > 0 && args[0] == "-fakeudp" {
		// also redirect net.ListenUDP to the in-memory socket of internal/vrt
		fakeUDP = true
		args = args[1:]
	}
	for _, path := range args {
		fset := token.NewFileSet()
		f, err := parser.ParseFile(fset, path, nil, parser.ParseComments)
		if err != nil {
			fmt.Fprintln(os.Stderr, "instr:", err)
			os.Exit(1)
		}
		rw := &rewriter{fset: fset, file: filepath.Base(path)}
		if fakeUDP {
			ast.Inspect(f, func(n ast.Node) bool {
				if c, ok := n.(*ast.CallExpr); ok {
					if s, ok := c.Fun.(*ast.SelectorExpr); ok && s.Sel.Name == "ListenUDP" {
						if x, ok := s.X.(*ast.Ident); ok && x.Name == "net" {
							x.Name = "vrt"
							rw.n++
						}
					}
				}

				return true
			})
		}
		for _, d := range f.Decls {
			if fd, ok := d.(*ast.FuncDecl); ok && fd.Body != nil {
				rw.block(fd.Body)
			}
		}
		if rw.n == 0 {
			continue
		}
		addImport(f)
		var buf bytes.Buffer
		if err := format.Node(&buf, fset, f); err != nil {
			fmt.Fprintln(os.Stderr, "instr:", err)
			os.Exit(1)
		}
		if err := os.WriteFile(path, buf.Bytes(), 0o644); err != nil {
			fmt.Fprintln(os.Stderr, "instr:", err)
			os.Exit(1)
		}
		total += rw.n
		fmt.Printf("instr: %s: %d points\n", path, rw.n)
	}
	fmt.Printf("instr: total %d points\n", total)
}

func addImport(f *ast.File) {
	for _, im := range f.Imports {
		if im.Path.Value == strconv.Quote(vrtPath) {
			return
		}
	}
	spec := &ast.ImportSpec{Name: ast.NewIdent("vrt"), Path: &ast.BasicLit{Kind: token.STRING, Value: strconv.Quote(vrtPath)}}
	decl := &ast.GenDecl{Tok: token.IMPORT, Specs: []ast.Spec{spec}}
	f.Decls = append([]ast.Decl{decl}, f.Decls...)
	f.Imports = append(f.Imports, spec)
}

func call(name string, args ...ast.Expr) ast.Stmt {
	return &ast.ExprStmt{X: &ast.CallExpr{
		Fun:  &ast.SelectorExpr{X: ast.NewIdent("vrt"), Sel: ast.NewIdent(name)},
		Args: args,
	}}
}

func (rw *rewriter) yield(pos token.Pos) ast.Stmt {
	rw.n++
	p := rw.fset.Position(pos)

	return call("Yield", &ast.BasicLit{Kind: token.STRING, Value: strconv.Quote(fmt.Sprintf("%s:%d", rw.file, p.Line))})
}

// method name of a call statement like x.y.Lock()
func methodName(e ast.Expr) string {
	c, ok := e.(*ast.CallExpr)
	if !ok {
		return ""
	}
	switch f := c.Fun.(type) {
	case *ast.SelectorExpr:
		return f.Sel.Name
	case *ast.Ident:
		return f.Name
	}

	return ""
}

func isTimeSleep(e ast.Expr) bool {
	c, ok := e.(*ast.CallExpr)
	if !ok {
		return false
	}
	s, ok := c.Fun.(*ast.SelectorExpr)
	if !ok {
		return false
	}
	x, ok := s.X.(*ast.Ident)

	return ok && x.Name == "time" && s.Sel.Name == "Sleep"
}

// hasSyncExpr reports whether the expression tree (not descending into function literals)
// contains a channel receive, or a call to Lock/RLock/Wait/close/Do.
func hasSyncExpr(n ast.Node) bool {
	found := false
	ast.Inspect(n, func(x ast.Node) bool {
		if found {
			return false
		}
		switch v := x.(type) {
		case *ast.FuncLit:
			return false
		case *ast.UnaryExpr:
			if v.Op == token.ARROW {
				found = true
			}
		case *ast.CallExpr:
			switch methodName(v) {
			case "Lock", "RLock", "Wait":
				if len(v.Args) == 0 {
					found = true
				}
			case "close":
				found = true
			}
			if isTimeSleep(v) {
				found = true
			}
		}

		return true
	})

	return found
}

// funcLits instruments the bodies of function literals nested in n.
func (rw *rewriter) funcLits(n ast.Node) {
	if n == nil {
		return
	}
	ast.Inspect(n, func(x ast.Node) bool {
		if fl, ok := x.(*ast.FuncLit); ok {
			rw.block(fl.Body)

			return false
		}

		return true
	})
}

func (rw *rewriter) block(b *ast.BlockStmt) {
	if b == nil {
		return
	}
	b.List = rw.stmts(b.List)
}

func (rw *rewriter) stmts(list []ast.Stmt) []ast.Stmt { //nolint:cyclop,gocognit
	var out []ast.Stmt
	for _, s := range list {
		switch v := s.(type) {
		case *ast.ExprStmt:
			rw.funcLits(v.X)
			name := methodName(v.X)
			c, isCall := v.X.(*ast.CallExpr)
			switch {
			case isCall && (name == "Lock" || name == "RLock") && len(c.Args) == 0:
				// vrt.DoLock("<file>:<line>", x.TryLock, x.Lock): gate, lock, Acquired (cooperative in fine mode)
				sel, _ := c.Fun.(*ast.SelectorExpr)
				if sel == nil {
					out = append(out, rw.yield(v.Pos()), s, call("Acquired"))

					break
				}
				rw.n++
				pos := rw.fset.Position(v.Pos())
				try := "TryLock"
				if name == "RLock" {
					try = "TryRLock"
				}
				out = append(out, call("DoLock",
					&ast.BasicLit{Kind: token.STRING, Value: strconv.Quote(fmt.Sprintf("%s:%d", rw.file, pos.Line))},
					&ast.SelectorExpr{X: sel.X, Sel: ast.NewIdent(try)},
					&ast.SelectorExpr{X: sel.X, Sel: ast.NewIdent(name)}))
			case isCall && (name == "Unlock" || name == "RUnlock") && len(c.Args) == 0:
				out = append(out, call("Released"), s)
			case isCall && (name == "Add" || name == "Done") && len(c.Args) <= 1:
				out = append(out, rw.yield(v.Pos()), s) // WaitGroup.Add / Done
			case hasSyncExpr(v.X):
				out = append(out, rw.yield(v.Pos()), s)
			default:
				out = append(out, s)
			}
		case *ast.SendStmt:
			out = append(out, rw.yield(v.Pos()), s)
		case *ast.SelectStmt:
			for _, cc := range v.Body.List {
				if c, ok := cc.(*ast.CommClause); ok {
					c.Body = rw.stmts(c.Body)
				}
			}
			out = append(out, rw.yield(v.Pos()), s)
		case *ast.DeferStmt:
			name := methodName(v.Call)
			if (name == "Unlock" || name == "RUnlock") && len(v.Call.Args) == 0 {
				inner := &ast.BlockStmt{List: []ast.Stmt{call("Released"), &ast.ExprStmt{X: v.Call}}}
				v.Call = &ast.CallExpr{Fun: &ast.FuncLit{Type: &ast.FuncType{Params: &ast.FieldList{}}, Body: inner}}
			} else {
				rw.funcLits(v.Call)
			}
			out = append(out, s)
		case *ast.GoStmt:
			rw.funcLits(v.Call)
			out = append(out, s)
		case *ast.AssignStmt, *ast.ReturnStmt, *ast.DeclStmt, *ast.IncDecStmt:
			rw.funcLits(s)
			if hasSyncExpr(s) {
				out = append(out, rw.yield(s.Pos()), s)
			} else {
				out = append(out, s)
			}
		case *ast.BlockStmt:
			rw.block(v)
			out = append(out, s)
		case *ast.IfStmt:
			rw.ifStmt(v)
			pre := (v.Init != nil && hasSyncExpr(v.Init)) || hasSyncExpr(v.Cond)
			if pre {
				out = append(out, rw.yield(v.Pos()), s)
			} else {
				out = append(out, s)
			}
		case *ast.ForStmt:
			rw.block(v.Body)
			if (v.Cond != nil && hasSyncExpr(v.Cond)) || (v.Init != nil && hasSyncExpr(v.Init)) {
				v.Body.List = append(v.Body.List, rw.yield(v.Pos()))
				out = append(out, rw.yield(v.Pos()), s)
			} else {
				out = append(out, s)
			}
		case *ast.RangeStmt:
			rw.block(v.Body)
			out = append(out, s)
		case *ast.SwitchStmt:
			for _, cc := range v.Body.List {
				if c, ok := cc.(*ast.CaseClause); ok {
					c.Body = rw.stmts(c.Body)
				}
			}
			out = append(out, s)
		case *ast.TypeSwitchStmt:
			for _, cc := range v.Body.List {
				if c, ok := cc.(*ast.CaseClause); ok {
					c.Body = rw.stmts(c.Body)
				}
			}
			out = append(out, s)
		case *ast.LabeledStmt:
			inner := rw.stmts([]ast.Stmt{v.Stmt})
			// keep the label on the original statement; yields go in front of the label
			v.Stmt = inner[len(inner)-1]
			out = append(out, inner[:len(inner)-1]...)
			out = append(out, v)
		default:
			out = append(out, s)
		}
	}

	return out
}

func (rw *rewriter) ifStmt(v *ast.IfStmt) {
	rw.funcLits(v.Cond)
	rw.block(v.Body)
	switch e := v.Else.(type) {
	case *ast.BlockStmt:
		rw.block(e)
	case *ast.IfStmt:
		rw.ifStmt(e)
	}
}
