"""C11 / C12 — UDP listener (specs/udp)."""
import json, os, random, subprocess
import vlib
from vlib import log


def send(r, admit=True):
    return {"op": "send", "r": r, "admit": admit}


ACC = {"op": "accept"}
LCL = {"op": "lclose"}


def cc(h):
    return {"op": "cclose", "h": h}


def wr(h):
    return {"op": "write", "h": h}


def rd(h):
    return {"op": "read", "h": h}


def concurrent_scenarios(tier):
    s = [
        ("accept_vs_lclose", [[send(1)], [ACC, wr(0), rd(0), cc(0)], [LCL]]),
        ("accept2_vs_lclose", [[send(1), send(2)], [ACC, wr(0), cc(0)], [ACC, wr(0), cc(0)], [LCL]]),
        ("accepted_survives_lclose", [[send(1), send(1)], [ACC, rd(0), rd(0), wr(0), cc(0)], [LCL]]),
        ("close_orders", [[send(1), send(2)], [ACC, cc(0)], [ACC, cc(0)], [LCL]]),
        ("idempotent", [[send(1)], [ACC, cc(0), cc(0)], [LCL, LCL]]),
        ("reopen_after_close", [[send(1), send(1), send(1)], [ACC, rd(0), cc(0), ACC, rd(1)]]),
        ("filter", [[send(1, False), send(1, True), send(2, False)], [ACC, rd(0)]]),
        ("overflow", [[send(1), send(2), send(3), send(3)], [ACC, ACC, ACC]]),
        ("pending_read_unblocked", [[send(1)], [ACC, rd(0), rd(0)], [LCL]]),
        ("two_remotes_interleaved", [[send(1), send(2), send(1), send(2)], [ACC, rd(0), rd(0)], [ACC, rd(0), rd(0)]]),
        ("lclose_then_conn", [[send(1), send(1)], [ACC, rd(0)], [LCL], [send(2)]]),
        ("reopen_seq", [[send(1), ACC, rd(0), cc(0), send(1), ACC, rd(1), cc(1), send(1), send(1), ACC, rd(2), rd(2)]]),
        ("lclose_discards_all", [[send(1), send(2), LCL, ACC, ACC, send(3), ACC]]),
        ("lclose_discards_keep_accepted", [[send(1), ACC, send(2), send(3), LCL, ACC, wr(0), rd(0), cc(0), ACC]]),
    ]
    if tier == "thorough":
        s += [
            ("three_way", [[send(1), send(2), send(1)], [ACC, rd(0), cc(0)], [ACC, wr(0), cc(0)], [LCL], [send(3)]]),
            ("cc_vs_lclose_vs_send", [[send(1)], [ACC, cc(0)], [LCL], [send(1), send(1)]]),
        ]
    return [{"name": n, "clients": c} for n, c in s]


def sequential_scripts(rng, n, steps):
    """Single-client histories; a small simulation keeps reads from blocking (generator heuristic)."""
    out = []
    for k in range(n):
        ops = []
        by_remote = {}      # remote -> conn dict
        backlog = []
        handles = []        # conn dicts in accept order (None if the accept failed)
        lclosed = False
        for _ in range(steps):
            c = rng.random()
            if c < 0.40:
                r = rng.randint(1, 4)
                admit = rng.random() < 0.8
                ops.append(send(r, admit))
                if r in by_remote:
                    by_remote[r]["inbox"] += 1
                elif not lclosed and admit and len(backlog) < 2 and sock_open(lclosed, handles):
                    cn = {"r": r, "inbox": 1, "open": True, "acc": False}
                    by_remote[r] = cn
                    backlog.append(cn)
            elif c < 0.60:
                if backlog or lclosed:
                    ops.append(ACC)
                    if backlog and not lclosed:
                        cn = backlog.pop(0)
                        cn["acc"] = True
                        handles.append(cn)
                    else:
                        handles.append(None)
            elif c < 0.80:
                live = [i for i, h in enumerate(handles) if h and (h["inbox"] > 0 or not h["open"])]
                if live:
                    i = rng.choice(live)
                    ops.append(rd(i))
                    if handles[i]["inbox"] > 0:
                        handles[i]["inbox"] -= 1
            elif c < 0.88:
                live = [i for i, h in enumerate(handles) if h]
                if live:
                    i = rng.choice(live)
                    ops.append(wr(i))
            elif c < 0.96:
                live = [i for i, h in enumerate(handles) if h]
                if live:
                    i = rng.choice(live)
                    ops.append(cc(i))
                    h = handles[i]
                    if h["open"]:
                        h["open"] = False
                        if by_remote.get(h["r"]) is h:
                            del by_remote[h["r"]]
            else:
                ops.append(LCL)
                if not lclosed:
                    lclosed = True
                    for cn in backlog:
                        cn["open"] = False
                        if by_remote.get(cn["r"]) is cn:
                            del by_remote[cn["r"]]
                    backlog = []
        out.append({"name": "seq%d" % k, "clients": [ops]})
    return out


def sock_open(lclosed, handles):
    return (not lclosed) or any(h and h["open"] for h in handles)


def describe(fl):
    sc = fl["scenario"]
    k = fl["matched"]
    return ("udp listener scenario %s: event %s is not allowed by UDPListener.tla after %s"
            % (sc[0].get("scenario"), json.dumps(fl["first_unmatched"]), json.dumps(sc[1:k])[:1600]))


def run(pid, tier, seed):
    rep = vlib.Report(pid, tier, seed)
    rng = random.Random(seed)
    cfgname = "TraceUDPDemux.cfg" if pid == "C11" else "TraceUDPLife.cfg"
    rep.assumptions += [
        "the listener runs over an in-memory datagram socket (net.ListenUDP in package udp is redirected to internal/vrt at check time) inside synctest bubbles, so nothing is lost in transit and quiescence is exact",
        "schedules are controlled at every lock/channel/select/WaitGroup operation of udp/conn.go and packetio/buffer.go; batch I/O (real sockets only) is outside this harness",
        "socket liveness is observed as the in-memory port being bound; package goroutines = read loop and socket closer",
        "a second run uses real loopback sockets with and without batch reads (sequential histories, a few small datagrams): loopback is treated as loss-free there and every blocking call gets 3 s",
    ]
    r = vlib.tlc_must_pass(vlib.run_tlc("udp", "MC_UDP", "MC_UDP.cfg"), "MC_UDP")
    rep.add_tlc(r)
    big = tier == "thorough"
    directed_seq = [
        # a stale second Close of a connection whose remote has reconnected, after the listener was closed:
        # the successor keeps the socket alive
        ("seqd_stale_close", [[send(1), ACC, rd(0), cc(0), send(1), ACC, rd(1), LCL, cc(0), wr(1), send(1), rd(1), cc(1)]]),
        ("seqd_stale_close2", [[send(1), ACC, cc(0), send(1), ACC, cc(0), cc(0), send(1), rd(1), wr(1), LCL, cc(0), wr(1), cc(1), cc(1)]]),
        # a refused datagram directly followed by admitted ones from the same remote (one batch in batch mode)
        ("seqd_refused_then_admitted", [[send(1, False), send(1), send(1), send(2, False), send(2, False), send(2), ACC, rd(0), rd(0), ACC, rd(1)]]),
        ("seqd_overflow_then_room", [[send(1), send(2), send(3), send(3), ACC, send(3), send(3), ACC, ACC, rd(2), rd(2)]]),
    ]
    scs = concurrent_scenarios(tier) + [{"name": n, "clients": c} for n, c in directed_seq] \
        + sequential_scripts(rng, 60 if not big else 600, 30)
    d = vlib.scratch("udp-")
    scen = os.path.join(d, "scen.ndjson")
    with open(scen, "w") as f:
        for s in scs:
            f.write(json.dumps(s) + "\n")
    repo = vlib.repo_copy()
    vlib.inject(repo, {"vrt": "internal/vrt", "udp": "udp"})
    vlib.ensure_instr()
    p = subprocess.run([os.path.join(vlib.ROOT, "bin", "instr"), "-fakeudp", os.path.join(repo, "udp", "conn.go"),
                        os.path.join(repo, "packetio", "buffer.go")], capture_output=True, text=True)
    if p.returncode != 0:
        raise vlib.Inconclusive("instr failed: " + p.stdout + p.stderr)
    rep.notes.append(p.stdout.strip().splitlines()[-1])
    tp = os.path.join(d, "t.trace")
    stats = os.path.join(d, "stats.json")
    rc, out, _ = vlib.go_test(repo, "./udp/", "^TestVerifUDPSync$", synctest=True, timeout=2400,
                              env={"VERIF_TRACE": tp, "VERIF_SCEN": scen, "VERIF_SEED": seed, "VERIF_STATS": stats,
                                   "VERIF_BUDGET": 300 if not big else 6000, "VERIF_RANDOM": 150 if not big else 3000})
    if rc != 0:
        k = vlib.classify_go_failure(out)
        if k == "sut-panic":
            rep.violation({"go_test_output": out[-4000:]}, "code under test panicked:\n" + out[-1500:])
            return rep.finish()
        if k != "stopped":
            raise vlib.Inconclusive("harness failed:\n" + out[-3000:])
        rep.notes.append("driver stopped after recording a surviving socket/goroutine")
        rep.stopped = "driver stopped deliberately"
    if os.path.exists(stats):
        st = json.load(open(stats))
        rep.extra["schedules"] = {k: {"dfs": v[0], "random": v[1], "exhaustive": bool(v[2])} for k, v in st.items() if not k.startswith("seq")}
        rep.extra["schedules_total"] = sum(v[0] + v[1] for v in st.values())
    lines = vlib.read_ndjson(tp)
    # real loopback sockets (with and without batch reads), sequential histories only
    seq = [s_ for s_ in scs if len(s_["clients"]) == 1][:10 if not big else 80]
    scen2 = os.path.join(d, "scen_real.ndjson")
    with open(scen2, "w") as f:
        for s_ in seq:
            f.write(json.dumps(s_) + "\n")
    repo2 = vlib.repo_copy()
    vlib.inject(repo2, {"vrt": "internal/vrt", "udp": "udp"})
    tp2 = os.path.join(d, "t2.trace")
    rc, out, _ = vlib.go_test(repo2, "./udp/", "^TestVerifUDPReal$", synctest=False, timeout=1200,
                              env={"VERIF_TRACE": tp2, "VERIF_SCEN": scen2, "VERIF_SEED": seed})
    if rc != 0:
        k = vlib.classify_go_failure(out)
        if k == "sut-panic":
            rep.violation({"go_test_output": out[-4000:]}, "code under test panicked:\n" + out[-1500:])
            return rep.finish()
        if k != "stopped":
            raise vlib.Inconclusive("real-socket harness failed:\n" + out[-3000:])
        rep.notes.append("real-socket driver stopped after recording a Close call that does not return")
        rep.stopped = "real-socket driver stopped deliberately"
    real = vlib.read_ndjson(tp2)
    rep.extra["real_socket_histories"] = sum(1 for e in real if e["ev"] == "reset")
    lines += real
    rep.extra["trace_events"] = len(lines)
    n_ok, fails, nst = vlib.validate_scenarios("udp", "TraceUDP", cfgname, lines, batch=30000, heap="8g")
    rep.traces = n_ok + len(fails)
    rep.extra["trace_validation_states"] = nst
    allsc = vlib.split_scenarios(lines)
    rep.sample(allsc[0][1])
    byname = {s["name"]: s for s in scs}
    for fl in fails:
        sc = fl["scenario"]
        q = [e for e in sc if e["ev"] == "quiesce"]
        rep.violation({"scenario": byname.get(sc[0].get("scenario", "").split("/")[0]), "sched": q[0]["sched"] if q else [],
                       "trace": sc, "matched": fl["matched"], "spec": "specs/udp/TraceUDP.tla"}, describe(fl))
    # spec growth beyond C11/C12: write batching of udp.BatchConn over real sockets (specs/batch);
    # a rejection there is reported as a note, never as a violation of C11/C12
    if pid == "C12":
        vlib.inject(repo2, {"batch": "udp"})
        tp3 = os.path.join(d, "batch.trace")
        rc, out, _ = vlib.go_test(repo2, "./udp/", "^TestVerifBatchConn$", synctest=False, timeout=600,
                                  env={"VERIF_TRACE": tp3, "VERIF_SEED": seed, "VERIF_RUNS": 8 if not big else 40})
        if rc == 0:
            rb = vlib.run_tlc("batch", "MC_Batch", "MC_Batch.cfg", workers=2)
            if rb.ok:
                rep.add_tlc(rb)
            bl = vlib.read_ndjson(tp3)
            b_ok, b_fails, _ = vlib.validate_scenarios("batch", "TraceBatch", "TraceBatch.cfg", bl, batch=40000)
            rep.extra["aux_batchconn_runs_validated"] = b_ok
            rep.extra["aux_batchconn_drift"] = [f["first_unmatched"] for f in b_fails]
            for f in b_fails:
                rep.notes.append("NOTE model-drift (BatchConn, not part of C12): " + json.dumps(f["first_unmatched"]))
                log("NOTE model-drift (BatchConn, not part of C12): " + json.dumps(f["first_unmatched"]))
        else:
            rep.notes.append("auxiliary BatchConn harness did not run: " + out[-300:])
    if not fails:
        cand = [s[1] for s in allsc if any(e["ev"] == "ret" and e["res"] == "data" for e in s[1])]
        s0 = [dict(e) for e in cand[len(cand) // 2]]
        for e in s0:
            if pid == "C11" and e["ev"] == "ret" and e["res"] == "data":
                e["remote"] = e["remote"] + 1000      # a datagram nobody sent
                break
            if pid == "C12" and e["ev"] == "quiesce":
                e["sock"] = not e["sock"]             # socket closed too early / left open
                break
        ok, hw, _ = vlib.validate_trace("udp", "TraceUDP", cfgname, s0)
        if ok:
            raise vlib.Inconclusive("binding self-test: corrupted trace accepted")
        rep.extra["binding_selftest"] = "corrupted %s rejected at line %d" % ("datagram id" if pid == "C11" else "socket state", hw + 1)
    return rep.finish()
