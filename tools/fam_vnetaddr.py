"""C13 — vnet address assignment and socket binding (specs/vnetaddr)."""
import json, os, random
import vlib
from vlib import log


def describe(fl):
    sc = fl["scenario"]
    k = fl["matched"]
    return ("vnet addresses: event %s is not allowed by VNetAddr.tla after %s"
            % (json.dumps(fl["first_unmatched"]), json.dumps(sc[max(1, k - 14):k])[:1500]))


def run(pid, tier, seed):
    rep = vlib.Report(pid, tier, seed)
    rng = random.Random(seed)
    rep.assumptions += [
        "binds go through the public entry points (ListenUDP, ListenPacket, DialUDP, Dial); the demultiplexing clause is observed in-package on the host's socket table (the function onInboundChunk uses)",
        "an automatic assignment may report an error at any time (the property only forbids handing out a held or out-of-subnet address); duplicate static addresses are not exercised",
    ]
    big = tier == "thorough"
    d = vlib.scratch("addr-")
    doth, dotr = os.path.join(d, "h.dot"), os.path.join(d, "r.dot")
    r1 = vlib.tlc_must_pass(vlib.run_tlc("vnetaddr", "MC_VNetAddr", "MC_VNetAddrHost.cfg", args=["-dump", "dot,actionlabels", doth]), "MC host")
    r2 = vlib.tlc_must_pass(vlib.run_tlc("vnetaddr", "MC_VNetAddr", "MC_VNetAddrRouter.cfg", workers=2, args=["-dump", "dot,actionlabels", dotr]), "MC router")
    rep.add_tlc(r1)
    rep.add_tlc(r2)
    rep.exhaustive = True
    inits, adj, ne = vlib.load_graph(doth)
    th, cov, tot = vlib.tours(inits, adj, max_len=10, rng=rng, max_tours=20000 if big else 3000)
    rep.extra.update(host_graph_edges=ne, host_tour_edges=cov, host_tours=len(th))
    inits, adj, ne2 = vlib.load_graph(dotr)
    trr, cov2, tot2 = vlib.tours(inits, adj, max_len=12, rng=rng)
    rep.extra.update(router_graph_edges=ne2, router_tour_edges=cov2)
    log("host tours %d (%d/%d edges), router tours %d (%d/%d)" % (len(th), cov, tot, len(trr), cov2, tot2))
    sh, sr = os.path.join(d, "sh.ndjson"), os.path.join(d, "sr.ndjson")
    with open(sh, "w") as f:
        for t in th:
            ops = []
            for lab in t:
                nm, a = vlib.parse_label(lab)
                ops.append({"op": "B", "ip": a[0], "port": a[1]} if nm == "B" else {"op": "C", "id": a[0]})
            f.write(json.dumps(ops) + "\n")
    with open(sr, "w") as f:
        for t in trr:
            ops = []
            for lab in t:
                nm, a = vlib.parse_label(lab)
                ops.append({"op": "Auto"} if nm == "Auto" else {"op": "Static", "a": a[0]})
            f.write(json.dumps(ops) + "\n")
    repo = vlib.repo_copy()
    vlib.inject(repo, {"vrt": "internal/vrt", "vnetaddr": "vnet"})
    lines = []
    for i, (run_re, env) in enumerate([("^TestVerifBindTours$", {"VERIF_SCEN": sh}),
                                       ("^TestVerifBindRandom$", {"VERIF_RUNS": 30 if not big else 300}),
                                       ("^TestVerifAssign$", {"VERIF_SCEN": sr, "VERIF_RUNS": 12 if not big else 120})]):
        tp = os.path.join(d, "t%d.trace" % i)
        e = {"VERIF_TRACE": tp, "VERIF_SEED": seed}
        e.update(env)
        rc, out, _ = vlib.go_test(repo, "./vnet/", run_re, env=e, timeout=1500)
        if rc != 0:
            k = vlib.classify_go_failure(out)
            if k == "sut-panic":
                rep.violation({"go_test_output": out[-4000:]}, "code under test panicked:\n" + out[-1500:])
                return rep.finish()
            raise vlib.Inconclusive("harness %s failed:\n%s" % (run_re, out[-3000:]))
        lines += vlib.read_ndjson(tp)
    rep.extra["trace_events"] = len(lines)
    n_ok, fails, st = vlib.validate_scenarios("vnetaddr", "TraceVNetAddr", "TraceVNetAddr.cfg", lines, batch=30000, heap="8g")
    rep.traces = n_ok + len(fails)
    rep.extra["trace_validation_states"] = st
    scs = vlib.split_scenarios(lines)
    rep.sample(scs[len(scs) // 3][1][:8])
    rep.sample(scs[-1][1][:8])
    for fl in fails:
        rep.violation({"trace": fl["scenario"][max(0, fl["matched"] - 80):fl["matched"] + 2], "reset": fl["scenario"][0],
                       "matched": fl["matched"], "spec": "specs/vnetaddr/TraceVNetAddr.tla"}, describe(fl))
    if not fails:
        cand = [s[1] for s in scs if sum(1 for e in s[1] if e["ev"] == "auto" and e["res"] == "ok") >= 2]
        s0 = [dict(e) for e in cand[0]]
        autos = [e for e in s0 if e["ev"] == "auto" and e["res"] == "ok"]
        autos[1]["a"] = autos[0]["a"]        # the same address handed out twice
        ok, hw, _ = vlib.validate_trace("vnetaddr", "TraceVNetAddr", "TraceVNetAddr.cfg", s0)
        if ok:
            raise vlib.Inconclusive("binding self-test: duplicate address accepted")
        rep.extra["binding_selftest"] = "duplicate address rejected at line %d" % (hw + 1)
    return rep.finish()
