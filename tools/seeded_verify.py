#!/usr/bin/env python3
"""Confirm a seeded change myself, in a scratch worktree of /repo (never in /repo):
   patch applies and builds; the existing tests of the touched packages (+ dependants) pass with it;
   the demonstration fails with it and passes without it.  Writes 'confirmed' into meta.json."""
import json, os, subprocess, sys, shutil, tempfile, re
ENV = dict(os.environ, GOFLAGS="-mod=mod", GOPROXY="off", GOSUMDB="off")
def sh(cmd, cwd, timeout=1500):
    p = subprocess.run(cmd, cwd=cwd, shell=True, env=ENV, stdout=subprocess.PIPE, stderr=subprocess.STDOUT, text=True, timeout=timeout)
    return p.returncode, p.stdout
def main():
    d = os.path.abspath(sys.argv[1])
    meta = json.load(open(os.path.join(d, "meta.json")))
    wt = tempfile.mkdtemp(prefix="seedwt-", dir="/tmp")
    os.rmdir(wt)
    subprocess.run(["git", "-C", "/repo", "worktree", "add", "-q", "--detach", wt, "HEAD"], check=True)
    out = {}
    try:
        demo = open(os.path.join(d, "demo_test.go")).read()
        m = re.search(r"//\s*copy to:\s*(\S+)", demo)
        pkgdir = (m.group(1) if m else meta.get("demo_pkg", "")).strip("./")
        shutil.copy(os.path.join(d, "demo_test.go"), os.path.join(wt, pkgdir, "zz_demo_test.go"))
        run = meta.get("demo_run", "Test")
        rc0, o0 = sh("go test -count=1 -vet=off -run '%s' ./%s/" % (run, pkgdir), wt)
        out["demo_without_patch"] = "pass" if rc0 == 0 else "FAIL"
        rc, o = sh("git apply %s" % os.path.join(d, "patch.diff"), wt)
        out["applies"] = rc == 0
        if rc != 0:
            print(o)
        rc1, o1 = sh("go test -count=1 -vet=off -run '%s' ./%s/" % (run, pkgdir), wt)
        out["demo_with_patch"] = "fail" if rc1 != 0 else "PASS(!)"
        os.remove(os.path.join(wt, pkgdir, "zz_demo_test.go"))
        files = meta.get("files") or re.findall(r"^\+\+\+ b/(\S+)", open(os.path.join(d, "patch.diff")).read(), re.M)
        pkgs = sorted({os.path.dirname(f) for f in files})
        dep = {"packetio": ["udp"], "deadline": ["packetio", "udp", "dpipe", "test"], "vnet": [], "replaydetector": []}
        allp = set(pkgs)
        for p in pkgs:
            allp.update(dep.get(p, []))
        rcb, ob = sh("go build ./... ", wt)
        out["builds"] = rcb == 0
        fails = []
        for rnd in range(2):
            rc2, o2 = sh("go test -count=1 -vet=off " + " ".join("./%s/" % p for p in sorted(allp)), wt)
            if rc2 != 0:
                fails.append(re.findall(r"^--- FAIL: (\S+)", o2, re.M))
        out["existing_tests_with_patch"] = "pass x2" if not fails else "FAILED: %s" % fails
    finally:
        subprocess.run(["git", "-C", "/repo", "worktree", "remove", "--force", wt])
    meta["confirmed"] = out
    json.dump(meta, open(os.path.join(d, "meta.json"), "w"), indent=1)
    print(os.path.basename(d), json.dumps(out))
if __name__ == "__main__":
    main()
