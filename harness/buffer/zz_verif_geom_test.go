//go:build verif && !verif_nogeom

package packetio

// VerifGeom exposes the ring geometry to the external harness. It is used only to
// CHOOSE the next operation (steering head/tail to the ring end), never as an oracle.
var VerifGeom = func(b *Buffer) (head, tail, size int) { //nolint:gochecknoglobals
	b.mutex.Lock()
	defer b.mutex.Unlock()

	return b.head, b.tail, len(b.data)
}
