//go:build verif

package packetio_test

import (
	"encoding/json"
	"errors"
	"io"
	"math/rand"
	"net"
	"testing"
	"time"

	"github.com/pion/transport/v3/internal/vrt"
	"github.com/pion/transport/v3/packetio"
)

// payload: bytes 0..3 carry the id (little endian), byte i>=4 is a function of id and i.
func mkPayload(id uint32, n int) []byte {
	p := make([]byte, n)
	for i := range p {
		p[i] = payloadByte(id, i)
	}

	return p
}

func payloadByte(id uint32, i int) byte {
	if i < 4 {
		return byte(id >> (8 * uint(i)))
	}
	x := id*2654435761 + uint32(i)*40503 //nolint:gosec
	x ^= x >> 15

	return byte(x)
}

// intact reports whether p[4:] is consistent with the id carried in p[:4].
func intact(p []byte) bool {
	if len(p) <= 4 {
		return true
	}
	id := uint32(p[0]) | uint32(p[1])<<8 | uint32(p[2])<<16 | uint32(p[3])<<24
	for i := 4; i < len(p); i++ {
		if p[i] != payloadByte(id, i) {
			return false
		}
	}

	return true
}

func b4(p []byte) []int {
	out := []int{}
	for i := 0; i < len(p) && i < 4; i++ {
		out = append(out, int(p[i]))
	}

	return out
}

func errClass(err error) string {
	var ne net.Error
	switch {
	case err == nil:
		return "ok"
	case errors.Is(err, io.ErrShortBuffer):
		return "short"
	case errors.Is(err, io.EOF):
		return "eof"
	case errors.Is(err, io.ErrClosedPipe):
		return "closed"
	case errors.Is(err, packetio.ErrFull):
		return "full"
	case errors.As(err, &ne) && ne.Timeout():
		return "timeout"
	case err.Error() == "packet too big":
		return "toobig"
	default:
		return "other:" + err.Error()
	}
}

type bufRun struct {
	tr     *vrt.Tracer
	b      *packetio.Buffer
	nextID uint32
	closed bool
	dl     string
	rbuf   []byte
}

func newBufRun(tr *vrt.Tracer) *bufRun {
	r := &bufRun{tr: tr, b: packetio.NewBuffer(), dl: "none", rbuf: make([]byte, 70000)}
	r.nextID = 1
	tr.Emit(vrt.M{"ev": "reset"})

	return r
}

func (r *bufRun) occ(m vrt.M) {
	m["count"] = r.b.Count()
	m["size"] = r.b.Size()
	r.tr.Emit(m)
}

func (r *bufRun) write(n int) string {
	id := r.nextID
	r.nextID++
	p := mkPayload(id, n)
	_, err := r.b.Write(p)
	head := b4(p)
	for i := range p { // the caller may overwrite its slice as soon as Write returns
		p[i] = 0xEE
	}
	res := errClass(err)
	r.occ(vrt.M{"ev": "W", "n": n, "b4": head, "res": res})

	return res
}

func (r *bufRun) read(capN int) (string, int) {
	if r.b.Count() == 0 && !r.closed && r.dl != "passed" {
		// the call would block: record that instead of hanging the sequential driver
		r.occ(vrt.M{"ev": "R", "cap": capN, "res": "block", "n": 0, "b4": []int{}, "intact": true})

		return "block", 0
	}
	buf := r.rbuf[:capN]
	for i := range buf {
		buf[i] = 0xDD
	}
	type rr struct {
		n   int
		err error
	}
	ch := make(chan rr, 1)
	go func() {
		n, err := r.b.Read(buf)
		ch <- rr{n, err}
	}()
	var n int
	var err error
	select {
	case x := <-ch:
		n, err = x.n, x.err
	case <-time.After(5 * time.Second):
		// Count()>0 (or closed / deadline passed) and still no return: record it and stop the driver
		r.occ(vrt.M{"ev": "R", "cap": capN, "res": "hang", "n": 0, "b4": []int{}, "intact": true})
		r.tr.Close()
		panic("verif: Read did not return although the buffer is readable (recorded as res=hang); stopping the driver")
	}
	res := errClass(err)
	okBytes := true
	if n < 0 || n > capN {
		okBytes = false
		n = 0
	}
	r.occ(vrt.M{"ev": "R", "cap": capN, "res": res, "n": n, "b4": b4(buf[:n]), "intact": okBytes && intact(buf[:n])})

	return res, n
}

func (r *bufRun) limitCount(k int) { r.b.SetLimitCount(k); r.occ(vrt.M{"ev": "LC", "k": k}) }
func (r *bufRun) limitSize(k int)  { r.b.SetLimitSize(k); r.occ(vrt.M{"ev": "LS", "k": k}) }
func (r *bufRun) close() {
	_ = r.b.Close()
	r.closed = true
	r.occ(vrt.M{"ev": "Cl"})
}

func (r *bufRun) deadline(d string) {
	switch d {
	case "none":
		_ = r.b.SetReadDeadline(time.Time{})
	case "passed":
		_ = r.b.SetReadDeadline(time.Now().Add(-time.Second))
	default:
		_ = r.b.SetReadDeadline(time.Now().Add(time.Hour))
	}
	r.dl = d
	r.occ(vrt.M{"ev": "DL", "d": d})
}

type bufOp struct {
	Op string `json:"op"`
	N  int    `json:"n"`
	D  string `json:"d"`
}

// TestVerifBufferTours replays the transition tours of MC_Buffer on the real Buffer.
func TestVerifBufferTours(t *testing.T) {
	tr := vrt.Open()
	defer tr.Close()
	n := 0
	vrt.ReadScenarios(func(line []byte) {
		var ops []bufOp
		if err := json.Unmarshal(line, &ops); err != nil {
			t.Fatal(err)
		}
		r := newBufRun(tr)
		for _, op := range ops {
			switch op.Op {
			case "W":
				r.write(op.N)
			case "R":
				r.read(op.N)
			case "LC":
				r.limitCount(op.N)
			case "LS":
				r.limitSize(op.N)
			case "Cl":
				r.close()
			case "DL":
				r.deadline(op.D)
			}
		}
		n++
	})
	t.Logf("tours=%d events=%d", n, tr.N)
}

var lenClasses = []int{0, 1, 2, 3, 4, 5, 7, 100, 1200, 1500, 2045, 2046, 2047, 4000, 65535} //nolint:gochecknoglobals

func pickLen(rng *rand.Rand) int {
	switch rng.Intn(4) {
	case 0:
		return lenClasses[rng.Intn(len(lenClasses))]
	case 1:
		return rng.Intn(64)
	case 2:
		return rng.Intn(3000)
	default:
		return rng.Intn(65536)
	}
}

func pickCap(rng *rand.Rand, next int) int {
	switch rng.Intn(8) {
	case 0:
		return 0
	case 1:
		return 1
	case 2:
		if next > 0 {
			return next - 1
		}

		return 0
	case 3:
		return next + 1
	case 4:
		return 65535
	case 5:
		return rng.Intn(next + 2)
	default:
		return next
	}
}

// TestVerifBufferRandom: seeded random sequential histories with limit changes, close and deadlines.
func TestVerifBufferRandom(t *testing.T) {
	tr := vrt.Open()
	defer tr.Close()
	rng := rand.New(rand.NewSource(vrt.Seed())) //nolint:gosec
	runs := vrt.EnvInt("VERIF_RUNS", 20)
	ops := vrt.EnvInt("VERIF_OPS", 200)
	for k := 0; k < runs; k++ {
		r := newBufRun(tr)
		var lens []int // lengths of packets the harness believes are queued (only to choose caps)
		small := rng.Intn(2) == 0
		for i := 0; i < ops; i++ {
			switch c := rng.Intn(100); {
			case c < 45:
				n := pickLen(rng)
				if small {
					n = rng.Intn(40)
				}
				if r.write(n) == "ok" {
					lens = append(lens, n)
				}
			case c < 85:
				next := 0
				if len(lens) > 0 {
					next = lens[0]
				}
				res, _ := r.read(pickCap(rng, next))
				if (res == "ok" || res == "short") && len(lens) > 0 {
					lens = lens[1:]
				}
			case c < 89:
				r.limitCount([]int{0, 1, 2, 3, 5, 100}[rng.Intn(6)])
			case c < 93:
				r.limitSize([]int{0, 1, 2, 3, 100, 2047, 2048, 2049, 4096, 70000}[rng.Intn(10)])
			case c < 96:
				r.deadline([]string{"none", "passed", "future"}[rng.Intn(3)])
			case c < 97:
				r.close()
			default:
				r.write(65536 + rng.Intn(3))
			}
		}
	}
	t.Logf("events=%d", tr.N)
}

// placeTail tries to bring the ring's tail to position target (mod ring size) with at least
// one packet still unread. Returns false if it could not.
func (r *bufRun) placeTail(rng *rand.Rand, target int) bool {
	for try := 0; try < 40; try++ {
		h, tl, s := packetio.VerifGeom(r.b)
		if s <= 0 {
			return false
		}
		tg := ((target % s) + s) % s
		if tl == tg && r.b.Count() > 0 {
			return true
		}
		free := ((h-tl-1)%s + s) % s // bytes that can still be stored
		if r.b.Count() == 0 {
			free = s - 1
		}
		want := ((tg-tl-2)%s + s) % s // payload length that makes tail land on tg
		if want+2 <= free && want < 65536 {
			if r.write(want) != "ok" {
				return false
			}

			continue
		}
		// not enough room (or too long): make room by reading, or advance with a filler
		if r.b.Count() > 1 {
			r.read(65535)

			continue
		}
		fill := free/2 - 2
		if fill > 60000 {
			fill = 60000
		}
		if fill < 0 {
			return false
		}
		if r.write(fill) != "ok" {
			return false
		}
	}

	return false
}

func (r *bufRun) drain(rng *rand.Rand, keep int) {
	for r.b.Count() > keep {
		c := 65535
		if rng.Intn(4) == 0 {
			c = rng.Intn(8)
		}
		res, _ := r.read(c)
		if res != "ok" && res != "short" {
			return
		}
	}
}

// TestVerifBufferGeometry steers head and tail to every offset around the ring end for
// every ring size reached by growth, writes packets of each length class across the end,
// and forces growth while the data is split in two segments.
func TestVerifBufferGeometry(t *testing.T) { //nolint:cyclop,gocognit
	tr := vrt.Open()
	defer tr.Close()
	rng := rand.New(rand.NewSource(vrt.Seed())) //nolint:gosec
	if _, _, s := packetio.VerifGeom(packetio.NewBuffer()); s < 0 {
		t.Log("geometry not available: steering skipped")

		return
	}
	maxRing := vrt.EnvInt("VERIF_MAXRING", 16384)
	steered, missed := 0, 0
	classes := []int{0, 1, 2, 3, 5, 100, 1500}
	// ring sizes: grow by writing until the ring has the wanted size
	for ring := 2048; ring <= maxRing; {
		for _, off := range []int{-4, -3, -2, -1, 0, 1, 2} {
			for _, cl := range classes {
				r := newBufRun(tr)
				// grow to the ring size with one big fill, then free most of it
				for {
					_, _, s := packetio.VerifGeom(r.b)
					if s >= ring {
						break
					}
					n := ring/3 + rng.Intn(50)
					if n > 65535 {
						n = 65535
					}
					if r.write(n) != "ok" {
						break
					}
				}
				if _, _, s := packetio.VerifGeom(r.b); s != ring {
					missed++

					continue
				}
				r.drain(rng, 1)
				if !r.placeTail(rng, ring+off) {
					missed++

					continue
				}
				steered++
				r.write(cl) // crosses / touches the ring end
				if rng.Intn(2) == 0 {
					r.write(rng.Intn(200))
				}
				// force growth with two segments populated in half of the cases
				if rng.Intn(2) == 0 {
					h, tl, _ := packetio.VerifGeom(r.b)
					if h > tl {
						r.write(ring) // larger than the free space: grow()
					}
				}
				r.drain(rng, 0)
				r.read(10) // would block (or not, if something is left)
				r.close()
				r.read(10) // drained and closed: end of file, nothing stale
			}
		}
		if ring < 128*1024 {
			ring *= 2
		} else {
			ring = 5 * ring / 4
		}
	}
	t.Logf("steered=%d missed=%d events=%d", steered, missed, tr.N)
	if steered == 0 {
		t.Fatal("steering never succeeded")
	}
}

// TestVerifBufferLimits approaches every limit from below with every packet length around
// the remaining room (C07), interleaving reads so that head and tail wrap.
func TestVerifBufferLimits(t *testing.T) { //nolint:cyclop,gocognit
	tr := vrt.Open()
	defer tr.Close()
	rng := rand.New(rand.NewSource(vrt.Seed())) //nolint:gosec
	big := vrt.EnvInt("VERIF_BIG", 0) == 1
	sizes := []int{0, 1, 2, 3, 4, 100, 2047, 2048, 2049, 4095, 4096, 4097, 8191, 8192, 8193, 16385, 131071, 131072, 131073, 163841}
	if big {
		sizes = append(sizes, 1<<20, 1<<22-1, 1<<22, 1<<22+1, 6<<20)
	}
	counts := []int{0, 1, 2, 100}
	for _, ls := range sizes {
		for _, lc := range counts {
			if ls == 0 && !big && lc == 0 {
				continue // the 4 MiB cap is approached only in the big variant
			}
			r := newBufRun(tr)
			if rng.Intn(2) == 0 {
				r.limitSize(ls)
				r.limitCount(lc)
			} else {
				r.limitCount(lc)
				r.limitSize(ls)
			}
			limit := ls
			if ls <= 0 {
				limit = 1 << 22
			}
			// fill to within one packet of the limit with mixed sizes, reading now and then
			for guard := 0; guard < 400; guard++ {
				room := limit - r.b.Size()
				if room < 80 || (lc > 0 && r.b.Count() >= lc-1) {
					break
				}
				n := rng.Intn(minI(room-70, 65535) + 1)
				if limit > 1<<20 && rng.Intn(3) > 0 {
					n = minI(room-70, 40000+rng.Intn(25000))
				}
				if r.write(n) != "ok" {
					break
				}
				if rng.Intn(5) == 0 {
					r.read(65535)
				}
			}
			// probe with every length around the remaining room; each accepted probe is read back
			for d := -4; d <= 4; d++ {
				room := limit - r.b.Size() - 2
				n := room + d
				if n < 0 || n > 65540 {
					continue
				}
				if r.write(n) == "ok" {
					// make room again by reading the oldest packets until the probe fits the next round
					for r.b.Count() > 0 && limit-r.b.Size()-2 < 0 {
						r.read(65535)
					}
				}
				if rng.Intn(3) == 0 && r.b.Count() > 0 {
					r.read(rng.Intn(20))
				}
			}
			// change limits at this point and probe again
			if rng.Intn(2) == 0 {
				r.limitSize(r.b.Size() + rng.Intn(8) - 2)
				r.write(rng.Intn(6))
				r.write(0)
			}
			if rng.Intn(2) == 0 {
				r.limitCount(r.b.Count() + rng.Intn(3) - 1)
				r.write(rng.Intn(6))
			}
			r.limitSize(0)
			r.limitCount(0)
			r.drain(rng, 0)
		}
	}
	t.Logf("events=%d", tr.N)
}

func minI(a, b int) int {
	if a < b {
		return a
	}

	return b
}
