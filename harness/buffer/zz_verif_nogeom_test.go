//go:build verif && verif_nogeom

package packetio

// VerifGeom fallback used when the unexported ring fields no longer exist.
var VerifGeom = func(*Buffer) (head, tail, size int) { return -1, -1, -1 } //nolint:gochecknoglobals
