//go:build verif

package packetio_test

import (
	"encoding/json"
	"math/rand"
	"os"
	"sync"
	"testing"
	"testing/synctest"
	"time"

	"github.com/pion/transport/v3/internal/vrt"
	"github.com/pion/transport/v3/packetio"
)

// One client = one goroutine performing a list of operations on the shared Buffer.
type syncOp struct {
	Op string `json:"op"` // R, W, Cl, DL
	N  int    `json:"n"`  // W: length, R: cap
	D  string `json:"d"`  // DL: none | passed | future
}

type syncScenario struct {
	Name    string     `json:"name"`
	Clients [][]syncOp `json:"clients"`
	Adv     bool       `json:"adv"` // the environment may advance time past the future deadline
}

const futureDL = 10 * time.Second

func execSync(t *testing.T, tr *vrt.Tracer, sc syncScenario, ex *vrt.Explorer) {
	stopWD := vrt.Watchdog(120*time.Second, func() {
		tr.Close()
		panic("verif: the run does not come to rest: a goroutine waits for a lock whose holder is blocked (recorded up to the last rest point)")
	})
	defer stopWD()
	synctest.Test(t, func(t *testing.T) {
		b := packetio.NewBuffer()
		s := vrt.NewSched(synctest.Wait)
		vrt.Install(s)
		tr.Emit(vrt.M{"ev": "reset", "scenario": sc.Name})
		var mu sync.Mutex
		inflight := map[int]bool{}
		inflightOp := map[int]string{}
		var wg sync.WaitGroup
		var nextID uint32 = 1
		over := false             // set at quiescence: what happens afterwards is clean-up, not part of the history
		gidOf := map[uint64]int{} // goroutine -> client
		for ci, ops := range sc.Clients {
			wg.Add(1)
			go func(ci int, ops []syncOp) {
				defer wg.Done()
				mu.Lock()
				gidOf[vrt.Goid()] = ci
				mu.Unlock()
				for oi, op := range ops {
					pid := ci*10 + oi
					vrt.Yield("client")
					m := vrt.M{"ev": "call", "p": pid, "op": op.Op, "cap": 0, "n": 0, "b4": []int{}, "d": ""}
					var payload []byte
					switch op.Op {
					case "W":
						mu.Lock()
						id := nextID
						nextID++
						mu.Unlock()
						payload = mkPayload(id, op.N)
						m["n"] = op.N
						m["b4"] = b4(payload)
					case "R":
						m["cap"] = op.N
					case "DL":
						m["d"] = op.D
					}
					mu.Lock()
					inflight[pid] = true
					inflightOp[pid] = op.Op
					tr.Emit(m)
					mu.Unlock()
					r := vrt.M{"ev": "ret", "p": pid, "op": op.Op, "res": "", "n": 0, "b4": []int{}, "intact": true}
					switch op.Op {
					case "W":
						_, err := b.Write(payload)
						r["res"] = errClass(err)
					case "R":
						buf := make([]byte, op.N)
						n, err := b.Read(buf)
						r["res"] = errClass(err)
						if n < 0 || n > len(buf) {
							r["intact"] = false
							n = 0
						}
						r["n"] = n
						r["b4"] = b4(buf[:n])
						r["intact"] = r["intact"].(bool) && intact(buf[:n]) //nolint:forcetypeassert
					case "Cl":
						_ = b.Close()
					case "DL":
						switch op.D {
						case "none":
							_ = b.SetReadDeadline(time.Time{})
						case "passed":
							_ = b.SetReadDeadline(time.Now().Add(-time.Second))
						default:
							_ = b.SetReadDeadline(time.Now().Add(futureDL))
						}
					}
					mu.Lock()
					delete(inflight, pid)
					delete(inflightOp, pid)
					if !over {
						tr.Emit(r)
					}
					stop := over
					mu.Unlock()
					if stop {
						return
					}
				}
			}(ci, ops)
		}
		advLeft := sc.Adv
		for steps := 0; steps < 5000; steps++ {
			parked := s.Parked()
			n := len(parked)
			mu.Lock()
			dlBusy := false
			for _, o := range inflightOp {
				if o == "DL" {
					dlBusy = true
				}
			}
			mu.Unlock()
			advNow := advLeft && !dlBusy // never advance the clock while a SetReadDeadline call is in flight
			if advNow {
				n++
			}
			if n == 0 {
				break
			}
			var k int
			if ex.Mode != "" {
				var ok bool
				if k, ok = directed(ex, sc, parked, gidOf, &mu); !ok {
					break
				}
				ex.Force(len(parked), k)
			} else {
				k = ex.Choose(n)
			}
			if k < len(parked) {
				s.Release(parked[k])

				continue
			}
			advLeft = false
			mu.Lock()
			tr.Emit(vrt.M{"ev": "adv"})
			mu.Unlock()
			time.Sleep(futureDL + time.Second)
		}
		synctest.Wait()
		mu.Lock()
		blocked := []int{}
		for p := range inflight {
			blocked = append(blocked, p)
		}
		tr.Emit(vrt.M{"ev": "quiesce", "blocked": blocked, "count": b.Count(), "sched": ex.Trail(), "fine": vrt.IsFine()})
		over = true
		mu.Unlock()
		// clean up: let everything finish so that the bubble can end
		vrt.Uninstall()
		_ = b.Close()
		_ = b.SetReadDeadline(time.Now().Add(-time.Second))
		wg.Wait()
	})
}

// directed picks the next goroutine in the two directed schedules.
//
//	probe: the clients run one after the other, each until it blocks or finishes; the number of
//	       gates a client passes before that is remembered.
//	brink: every client that starts with a Read is taken to the last gate before it would block
//	       (it has seen the buffer empty and released the lock, but does not wait yet), then all other
//	       clients run to completion, then the readers continue. This is the window the wake-up
//	       protocol exists for; enumeration reaches it late and random schedules only by luck.
func directed(ex *vrt.Explorer, sc syncScenario, parked []*vrt.Waiter, gidOf map[uint64]int, mu *sync.Mutex) (int, bool) {
	if len(parked) == 0 {
		return 0, false
	}
	mu.Lock()
	defer mu.Unlock()
	client := func(w *vrt.Waiter) int {
		if c, ok := gidOf[w.Gid]; ok {
			return c
		}

		return -1 // a goroutine of the code under test (timer callback)
	}
	if ex.Mode == "probe" {
		if ex.Gates == nil {
			ex.Gates = map[int]int{}
		}
		// lowest client first; every release of a client that has not been seen blocked yet counts
		best := 0
		for i, w := range parked {
			if client(w) >= 0 && (client(parked[best]) < 0 || client(w) < client(parked[best])) {
				best = i
			}
		}
		c := client(parked[best])
		if c >= 0 {
			// clients below c are no longer parked: they blocked or finished; freeze their counts
			for d := 0; d < c; d++ {
				if _, ok := ex.Gates[-1-d]; !ok {
					ex.Gates[-1-d] = 1 // marker: client d is done counting
				}
			}
			if _, frozen := ex.Gates[-1-c]; !frozen {
				ex.Gates[c]++
			}
		}

		return best, true
	}
	// brink
	isReader := func(c int) bool { return c >= 0 && len(sc.Clients[c]) > 0 && sc.Clients[c][0].Op == "R" }
	// phase A: a reader that has not reached the brink yet
	for i, w := range parked {
		c := client(w)
		if isReader(c) && ex.Gates[1000+c] < ex.Gates[c]-1 {
			ex.Gates[1000+c]++

			return i, true
		}
	}
	// phase B: anybody who is not a reader (lowest first; also timer callbacks)
	for i, w := range parked {
		if !isReader(client(w)) {
			return i, true
		}
	}

	// phase C: the readers
	return 0, true
}

// TestVerifBufferSync enumerates schedules (depth-first, then seeded random) of every
// scenario in VERIF_SCEN on the instrumented real Buffer.
func TestVerifBufferSync(t *testing.T) {
	tr := vrt.Open()
	defer tr.Close()
	budget := vrt.EnvInt("VERIF_BUDGET", 1500)
	nrand := vrt.EnvInt("VERIF_RANDOM", 500)
	nfine := vrt.EnvInt("VERIF_FINE", nrand/2)
	rng := rand.New(rand.NewSource(vrt.Seed())) //nolint:gosec
	stats := map[string][3]int{}
	vrt.ReadScenarios(func(line []byte) {
		var sc syncScenario
		if err := json.Unmarshal(line, &sc); err != nil {
			t.Fatal(err)
		}
		ex := &vrt.Explorer{}
		exhausted := false
		for ex.Runs < budget {
			ex.Begin()
			execSync(t, tr, sc, ex)
			if !ex.Next() {
				exhausted = true

				break
			}
		}
		dfs := ex.Runs
		// directed schedules: probe, then readers to the brink / others / readers
		dex := &vrt.Explorer{Mode: "probe"}
		dex.Begin()
		execSync(t, tr, sc, dex)
		dex.Mode = "brink"
		dex.Begin()
		execSync(t, tr, sc, dex)
		dfs += 2
		nr := 0
		if !exhausted {
			rex := &vrt.Explorer{Random: true, Rng: rng}
			for ; nr < nrand; nr++ {
				rex.Begin()
				execSync(t, tr, sc, rex)
			}
		}
		// fine-grained schedules (gates inside critical sections, locks taken cooperatively): random only
		vrt.SetFine(true)
		fex := &vrt.Explorer{Random: true, Rng: rng}
		for k := 0; k < nfine; k++ {
			fex.Begin()
			execSync(t, tr, sc, fex)
			nr++
		}
		vrt.SetFine(false)
		e := 0
		if exhausted {
			e = 1
		}
		stats[sc.Name] = [3]int{dfs, nr, e}
	})
	b, _ := json.Marshal(stats)
	t.Logf("schedstats=%s events=%d", b, tr.N)
	if p := os.Getenv("VERIF_STATS"); p != "" {
		_ = os.WriteFile(p, b, 0o644)
	}
}

// TestVerifBufferSyncReplay re-executes one recorded schedule.
func TestVerifBufferSyncReplay(t *testing.T) {
	tr := vrt.Open()
	defer tr.Close()
	var rp struct {
		Scenario syncScenario `json:"scenario"`
		Sched    []int        `json:"sched"`
		Fine     bool         `json:"fine"`
	}
	b, err := os.ReadFile(os.Getenv("VERIF_REPLAY"))
	if err != nil {
		t.Fatal(err)
	}
	if err := json.Unmarshal(b, &rp); err != nil {
		t.Fatal(err)
	}
	ex := &vrt.Explorer{}
	ex.SetPrefix(rp.Sched)
	ex.Begin()
	vrt.SetFine(rp.Fine)
	execSync(t, tr, rp.Scenario, ex)
	vrt.SetFine(false)
}

// TestVerifBufferConcurrent: free-running writers and readers on a small ring (real parallelism,
// no scheduler): every call and return is recorded and the history must linearize on the FIFO.
// Catches what the gate scheduler cannot see: work done outside the critical section.
func TestVerifBufferConcurrent(t *testing.T) { //nolint:cyclop,gocognit
	tr := vrt.Open()
	defer tr.Close()
	rng := rand.New(rand.NewSource(vrt.Seed())) //nolint:gosec
	runs := vrt.EnvInt("VERIF_RUNS", 12)
	perWriter := vrt.EnvInt("VERIF_N", 60)
	for k := 0; k < runs; k++ {
		nw, nr := 1+k%3, 1+(k/3)%2
		big := k%2 == 0
		b := packetio.NewBuffer()
		var mu sync.Mutex
		emit := func(m vrt.M) { mu.Lock(); tr.Emit(m); mu.Unlock() }
		emit(vrt.M{"ev": "reset", "scenario": "free-running"})
		limit := 3 * 1500
		if big {
			limit = 3 * 49000
		}
		emit(vrt.M{"ev": "call", "p": 1, "op": "LS", "cap": 0, "n": limit, "b4": []int{}, "d": ""})
		b.SetLimitSize(limit)
		emit(vrt.M{"ev": "ret", "p": 1, "op": "LS", "res": "", "n": 0, "b4": []int{}, "intact": true})
		var nextID uint32
		var pid int32 = 10
		total := nw * perWriter
		var got int32
		var wg sync.WaitGroup
		for w := 0; w < nw; w++ {
			wg.Add(1)
			seed := rng.Int63()
			go func() {
				defer wg.Done()
				r := rand.New(rand.NewSource(seed)) //nolint:gosec
				for i := 0; i < perWriter; {
					n := 4 + r.Intn(1400)
					if big {
						n = 40000 + r.Intn(9000)
					}
					mu.Lock()
					nextID++
					id := nextID
					pid++
					p := int(pid)
					payload := mkPayload(id, n)
					tr.Emit(vrt.M{"ev": "call", "p": p, "op": "W", "cap": 0, "n": n, "b4": b4(payload), "d": ""})
					mu.Unlock()
					_, err := b.Write(payload)
					res := errClass(err)
					emit(vrt.M{"ev": "ret", "p": p, "op": "W", "res": res, "n": 0, "b4": []int{}, "intact": true})
					for j := range payload {
						payload[j] = 0xEE
					}
					if res == "ok" {
						i++
					} else {
						time.Sleep(50 * time.Microsecond)
					}
				}
			}()
		}
		for rd := 0; rd < nr; rd++ {
			wg.Add(1)
			go func() {
				defer wg.Done()
				buf := make([]byte, 65535)
				for {
					mu.Lock()
					if int(got) >= total {
						mu.Unlock()

						return
					}
					got++ // this reader will take one packet
					pid++
					p := int(pid)
					tr.Emit(vrt.M{"ev": "call", "p": p, "op": "R", "cap": len(buf), "n": 0, "b4": []int{}, "d": ""})
					mu.Unlock()
					n, err := b.Read(buf)
					ok := n >= 0 && n <= len(buf)
					if !ok {
						n = 0
					}
					emit(vrt.M{"ev": "ret", "p": p, "op": "R", "res": errClass(err), "n": n, "b4": b4(buf[:n]), "intact": ok && intact(buf[:n])})
				}
			}()
		}
		done := make(chan struct{})
		go func() { wg.Wait(); close(done) }()
		select {
		case <-done:
			emit(vrt.M{"ev": "quiesce", "blocked": []int{}, "count": b.Count(), "sched": []int{}})
		case <-time.After(20 * time.Second):
			// somebody is stuck: close the buffer so everything returns, and let the spec judge the history
			_ = b.Close()
			<-done
		}
	}
	t.Logf("events=%d", tr.N)
}
