//go:build verif

package vnet

import (
	"encoding/json"
	"fmt"
	"math/rand"
	"net"
	"testing"
	"testing/synctest"
	"time"

	"github.com/pion/logging"
	"github.com/pion/transport/v3/internal/vrt"
)

func natIP(k int) net.IP { return net.IPv4(10, 0, byte(k>>8), byte(k)) }
func natID(ip net.IP) int {
	v4 := ip.To4()
	if v4 == nil || v4[0] != 10 || v4[1] != 0 {
		return -1
	}

	return int(v4[2])<<8 | int(v4[3])
}

func addrPair(a net.Addr) [2]int {
	u, ok := a.(*net.UDPAddr)
	if !ok {
		return [2]int{-1, -1}
	}

	return [2]int{natID(u.IP), u.Port}
}

type natRun struct {
	tr    *vrt.Tracer
	nat   *networkAddressTranslator
	base  time.Time
	last  int
	seen  [][2]int // external addresses in order of first allocation
	cur   [2]int   // external address of the latest translated outbound datagram
	pairs [][2]int // 1:1 mode: local ip, external ip
	rng   *rand.Rand
}

func behav(s string) EndpointDependencyType {
	switch s {
	case "addr":
		return EndpointAddrDependent
	case "addrport":
		return EndpointAddrPortDependent
	default:
		return EndpointIndependent
	}
}

func newNatRun(tr *vrt.Tracer, rng *rand.Rand, mode, mb, fb string, life time.Duration) *natRun {
	cfg := &natConfig{name: "verif", loggerFactory: logging.NewDefaultLoggerFactory()}
	ext := []int{1}
	pairs := [][2]int{}
	if mode == "1to1" {
		cfg.natType = NATType{Mode: NATModeNAT1To1}
		pairs = [][2]int{{10, 1}, {11, 2}}
		if rng.Intn(2) == 0 { // an address may be the local side of one pair and the external side of another
			pairs = [][2]int{{1, 2}, {2, 3}, {3, 4}, {11, 12}}
		}
		ext = []int{}
		for _, p := range pairs {
			cfg.localIPs = append(cfg.localIPs, natIP(p[0]))
			cfg.mappedIPs = append(cfg.mappedIPs, natIP(p[1]))
			ext = append(ext, p[1])
		}
	} else {
		cfg.natType = NATType{MappingBehavior: behav(mb), FilteringBehavior: behav(fb), MappingLifeTime: life}
		cfg.mappedIPs = []net.IP{natIP(1)}
		if rng.Intn(2) == 0 { // a router with two addresses on its WAN side: mappings live on the first
			cfg.mappedIPs = append(cfg.mappedIPs, natIP(2))
			ext = []int{1, 2}
		}
	}
	n, err := newNAT(cfg)
	if err != nil {
		panic(err)
	}
	tr.Emit(vrt.M{
		"ev": "reset", "mode": mode, "mapb": mb, "filtb": fb, "life": int(life / time.Millisecond),
		"ext": ext, "pairs": pairs, "dyn": 16384,
	})

	return &natRun{tr: tr, nat: n, base: time.Now(), rng: rng, pairs: pairs}
}

func (r *natRun) tick() {
	ms := int(time.Since(r.base) / time.Millisecond)
	if ms != r.last {
		r.last = ms
		r.tr.Emit(vrt.M{"ev": "tick", "t": ms})
	}
}

func mkChunk(src, dst [2]int, payload []byte) *chunkUDP {
	c := newChunkUDP(&net.UDPAddr{IP: natIP(src[0]), Port: src[1]}, &net.UDPAddr{IP: natIP(dst[0]), Port: dst[1]})
	c.userData = append([]byte(nil), payload...)

	return c
}

func (r *natRun) out(src, dst [2]int) {
	r.tick()
	pl := []byte(fmt.Sprintf("o-%d-%d-%d", src[0], src[1], r.rng.Intn(1000)))
	c := mkChunk(src, dst, pl)
	to, err := r.nat.translateOutbound(c)
	m := vrt.M{"ev": "out", "src": src, "dst": dst, "res": "ok", "ext": [2]int{0, 0}, "intact": true}
	switch {
	case err != nil:
		m["res"] = "err"
		m["what"] = err.Error()
	case to == nil:
		m["res"] = "drop"
	default:
		e := addrPair(to.SourceAddr())
		m["ext"] = e
		r.cur = e
		m["intact"] = string(to.UserData()) == string(pl) && addrPair(to.DestinationAddr()) == dst &&
			addrPair(c.SourceAddr()) == src // the caller's chunk is not modified
		known := false
		for _, s := range r.seen {
			known = known || s == e
		}
		if !known {
			r.seen = append(r.seen, e)
		}
	}
	r.tr.Emit(m)
}

func (r *natRun) in(src, dst [2]int) {
	r.tick()
	pl := []byte(fmt.Sprintf("i-%d-%d-%d", src[0], src[1], r.rng.Intn(1000)))
	c := mkChunk(src, dst, pl)
	to, err := r.nat.translateInbound(c)
	m := vrt.M{"ev": "in", "src": src, "dst": dst, "res": "ok", "to": [2]int{0, 0}, "intact": true}
	if err != nil || to == nil {
		m["res"] = "refused"
	} else {
		m["to"] = addrPair(to.DestinationAddr())
		m["intact"] = string(to.UserData()) == string(pl) && addrPair(to.SourceAddr()) == src
	}
	r.tr.Emit(m)
}

type natOp struct {
	Op  string `json:"op"` // cfg, cfg1, O, I, T
	Mb  string `json:"mb"`
	Fb  string `json:"fb"`
	Src [2]int `json:"src"`
	Dst [2]int `json:"dst"`
}

// TestVerifNATTours replays transition tours of MC_NAT on the real translator (virtual time).
func TestVerifNATTours(t *testing.T) {
	tr := vrt.Open()
	defer tr.Close()
	rng := rand.New(rand.NewSource(vrt.Seed())) //nolint:gosec
	k := 0
	vrt.ReadScenarios(func(line []byte) {
		var ops []natOp
		if err := json.Unmarshal(line, &ops); err != nil {
			t.Fatal(err)
		}
		synctest.Test(t, func(*testing.T) {
			var r *natRun
			for _, op := range ops {
				switch op.Op {
				case "cfg":
					r = newNatRun(tr, rng, "napt", op.Mb, op.Fb, 2500*time.Millisecond) // not a multiple of the 1 s step
				case "cfg1":
					r = newNatRun(tr, rng, "1to1", "ind", "ind", 0)
				case "O":
					r.out(op.Src, op.Dst)
				case "T":
					time.Sleep(time.Second)
				case "I":
					dst := op.Dst // symbolic: <<1,p>> = p-th allocated external address; others literal
					if r.nat.natType.Mode != NATModeNAT1To1 && dst[0] == 1 {
						if dst[1] <= len(r.seen) {
							dst = r.seen[dst[1]-1]
						} else {
							dst = [2]int{1, 40000 + dst[1]}
						}
					}
					r.in(op.Src, dst)
				}
			}
		})
		k++
	})
	t.Logf("tours=%d events=%d", k, tr.N)
}

var behs = []string{"ind", "addr", "addrport"} //nolint:gochecknoglobals

// TestVerifNATRandom: seeded histories over many endpoints for every NAT type and 1:1 mode.
func TestVerifNATRandom(t *testing.T) { //nolint:cyclop,gocognit
	tr := vrt.Open()
	defer tr.Close()
	rng := rand.New(rand.NewSource(vrt.Seed())) //nolint:gosec
	ops := vrt.EnvInt("VERIF_OPS", 300)
	reps := vrt.EnvInt("VERIF_REPS", 1)
	for rep := 0; rep < reps; rep++ {
		for ti := 0; ti < 10; ti++ {
			synctest.Test(t, func(*testing.T) {
				life := []time.Duration{2 * time.Second, 30 * time.Second}[rng.Intn(2)]
				var r *natRun
				if ti == 9 {
					r = newNatRun(tr, rng, "1to1", "ind", "ind", 0)
					life = time.Second
				} else {
					r = newNatRun(tr, rng, "napt", behs[ti/3], behs[ti%3], life)
				}
				internal := func() [2]int {
					if len(r.pairs) > 0 && rng.Intn(4) > 0 { // 1:1 mode: mostly paired addresses (local or external side)
						return [2]int{r.pairs[rng.Intn(len(r.pairs))][rng.Intn(2)], 1 + rng.Intn(4)}
					}

					return [2]int{10 + rng.Intn(3), 1 + rng.Intn(4)}
				}
				// remote addresses whose textual forms are prefixes of each other (10.0.0.3 / .30 / .31 / .250 / .25,
				// ports 8 / 80 / 800)
				rips := []int{3, 30, 31, 250, 25}
				rports := []int{8, 80, 800}
				remote := func() [2]int { return [2]int{rips[rng.Intn(3+2*(ti%2))], rports[rng.Intn(3)]} }
				var contacted [][2]int
				for i := 0; i < ops; i++ {
					switch c := rng.Intn(100); {
					case c < 45:
						d := remote()
						r.out(internal(), d)
						contacted = append(contacted, d)
					case c < 88:
						var src [2]int
						switch {
						case len(contacted) > 0 && rng.Intn(3) > 0:
							src = contacted[rng.Intn(len(contacted))]
							if rng.Intn(3) == 0 {
								src[1] += 7 // same ip, other port
							}
						default:
							src = [2]int{rips[rng.Intn(len(rips))], rports[rng.Intn(3)]} // possibly never contacted
						}
						var dst [2]int
						switch {
						case ti == 9:
							dst = [2]int{r.pairs[rng.Intn(len(r.pairs))][rng.Intn(2)], 1 + rng.Intn(4)}
							if rng.Intn(5) == 0 {
								dst[0] = 1 + rng.Intn(13)
							}
						case len(r.seen) > 0 && rng.Intn(4) > 0:
							dst = r.seen[rng.Intn(len(r.seen))]
							if rng.Intn(5) == 0 {
								dst[0] = 2 // same port on the router's other address
							}
						default:
							dst = [2]int{1 + rng.Intn(2), 49152 + rng.Intn(40)}
						}
						r.in(src, dst)
					default:
						d := []time.Duration{life / 4, life / 2, life - time.Millisecond, life + time.Millisecond, life + life/2}[rng.Intn(5)]
						time.Sleep(d)
					}
				}
			})
		}
	}
	t.Logf("events=%d", tr.N)
}

// TestVerifNATExhaust: more mappings than there are ports in the dynamic range.
func TestVerifNATExhaust(t *testing.T) {
	tr := vrt.Open()
	defer tr.Close()
	rng := rand.New(rand.NewSource(vrt.Seed())) //nolint:gosec
	n := vrt.EnvInt("VERIF_N", 16440)
	variants := []time.Duration{100 * time.Millisecond}
	if vrt.EnvInt("VERIF_ALIVE", 0) == 1 {
		variants = append(variants, time.Hour)
	}
	for _, life := range variants {
		synctest.Test(t, func(*testing.T) {
			r := newNatRun(tr, rng, "napt", "addrport", "addrport", life)
			src := [2]int{10, 5000}
			for i := 0; i < n; i++ {
				dst := [2]int{20 + i/60000, 1 + i%60000}
				r.out(src, dst)
				if i%50 == 0 || i > n-300 {
					r.in(dst, r.cur) // the remote answers to the external address it saw
				}
				time.Sleep(time.Millisecond)
			}
			// the first remote answers to the very first external address: long expired (short lifetime)
			r.in([2]int{20, 1}, r.seen[0])
			// early flows resume right after the port range has wrapped: their old ports belong to
			// younger mappings now, which are still alive
			wrapped := n - 16384 // flows 16384.. hold the ports of flows 0..
			keep := [][2]int{{20, 1 + 16384}, {20, 1 + 16385}, {20, 1}, {20, 2}}
			for i := 0; i < 120; i++ {
				dst := [2]int{20, 1 + i}
				r.out(src, dst)
				if i%30 == 0 {
					r.out(src, keep[0])
					r.out(src, keep[1])
				}
				if i < wrapped {
					heir := [2]int{20, 1 + 16384 + i}
					r.in(heir, r.seen[i]) // the younger mapping keeps its inbound path
				}
				if i%3 == 0 {
					r.in([2]int{20, 16300 + i/3}, r.seen[len(r.seen)-1-rng.Intn(20)])
					r.out(src, [2]int{20, 16300 + i/3}) // a recent flow sends again
				}
				time.Sleep(time.Millisecond)
			}
			if vrt.EnvInt("VERIF_WRAP2", 1) == 0 || life > time.Second {
				return
			}
			// a second trip round the range while a few flows are kept alive by outbound traffic:
			// their ports have to be passed over
			for j := 0; j < 16500; j++ {
				r.out(src, [2]int{30 + j/60000, 1 + j%60000})
				if j%40 == 0 {
					for _, kd := range keep {
						r.out(src, kd)
					}
				}
				if j%500 == 0 || j > 16300 {
					r.in(keep[j%len(keep)], r.seen[(j%len(keep))%2]) // addresses 0 and 1 are those of keep[0], keep[1]
				}
				time.Sleep(time.Millisecond)
			}
		})
	}
	t.Logf("events=%d", tr.N)
}

// TestVerifNATLifetime: refresh and expiry around the mapping lifetime, for every NAT type:
// outbound traffic recurring within the lifetime keeps the mapping, a full lifetime without
// outbound traffic ends it, inbound traffic alone never prolongs it.
func TestVerifNATLifetime(t *testing.T) {
	tr := vrt.Open()
	defer tr.Close()
	rng := rand.New(rand.NewSource(vrt.Seed())) //nolint:gosec
	life := 2 * time.Second
	fr := func(x float64) time.Duration { return time.Duration(x * float64(life)) }
	gaps := []float64{0.1, 0.25, 0.45, 0.55, 0.75, 0.95, 1.05, 1.5}
	for ti := 0; ti < 9; ti++ {
		for _, a := range gaps {
			for _, b := range gaps {
				synctest.Test(t, func(*testing.T) {
					r := newNatRun(tr, rng, "napt", behs[ti/3], behs[ti%3], life)
					src, dst := [2]int{10, 7}, [2]int{200, 30}
					r.out(src, dst)
					ext := r.seen[0]
					time.Sleep(fr(a))
					if rng.Intn(2) == 0 {
						r.out(src, dst) // outbound refresh ...
					} else {
						r.in(dst, ext) // ... or inbound traffic only
					}
					time.Sleep(fr(b))
					r.in(dst, ext)
					r.out([2]int{11, 9}, dst) // another endpoint must not get a live mapping's address
					r.out(src, dst)
					time.Sleep(fr(0.5))
					r.in(dst, ext)
					r.in([2]int{200, 4}, ext)
					r.in([2]int{20, 30}, ext) // 10.0.0.20 is a textual prefix of 10.0.0.200
					r.in([2]int{200, 3}, ext)
					r.in(dst, [2]int{2, ext[1]}) // same port on the router's other address
				})
			}
		}
	}
	t.Logf("events=%d", tr.N)
}
