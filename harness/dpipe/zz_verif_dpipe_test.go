//go:build verif

package dpipe_test

import (
	"encoding/json"
	"errors"
	"io"
	"math/rand"
	"net"
	"testing"
	"time"

	"github.com/pion/transport/v3/dpipe"
	"github.com/pion/transport/v3/internal/vrt"
)

func mkPayload(id uint32, n int) []byte {
	p := make([]byte, n)
	for i := range p {
		p[i] = payloadByte(id, i)
	}

	return p
}

func payloadByte(id uint32, i int) byte {
	if i < 4 {
		return byte(id >> (8 * uint(i)))
	}
	x := id*2654435761 + uint32(i)*40503 //nolint:gosec
	x ^= x >> 15

	return byte(x)
}

func decode(p []byte) (id int, intact bool) {
	if len(p) < 4 {
		return -1, false
	}
	u := uint32(p[0]) | uint32(p[1])<<8 | uint32(p[2])<<16 | uint32(p[3])<<24
	for i := 4; i < len(p); i++ {
		if p[i] != payloadByte(u, i) {
			return int(u), false
		}
	}

	return int(u), true
}

type dpOp struct {
	Op  string `json:"op"`
	E   int    `json:"e"`
	N   int    `json:"n"`
	Len int    `json:"len"`
}

type dpRun struct {
	tr     *vrt.Tracer
	c      [2]net.Conn
	id     uint32
	queued [2]int // messages the harness believes are readable at each end (driver heuristic only)
	closed [2]bool
}

func newDpRun(tr *vrt.Tracer) *dpRun {
	a, b := dpipe.Pipe()
	tr.Emit(vrt.M{"ev": "reset"})

	return &dpRun{tr: tr, c: [2]net.Conn{a, b}}
}

func (r *dpRun) apply(op dpOp) {
	switch op.Op {
	case "W":
		r.id++
		n := op.Len
		if n != 0 && n < 4 {
			n = 4 // non-empty messages carry their id in the first four bytes
		}
		p := mkPayload(r.id, n)
		_, err := r.c[op.E].Write(p)
		res := "ok"
		switch {
		case errors.Is(err, io.ErrClosedPipe):
			res = "closed"
		case err != nil:
			res = "other:" + err.Error()
		default:
			r.queued[1-op.E]++
		}
		for i := range p {
			p[i] = 0xEE
		}
		r.tr.Emit(vrt.M{"ev": "write", "e": op.E, "id": int(r.id), "len": n, "res": res})
	case "R":
		if r.queued[op.E] == 0 && !r.closed[op.E] {
			r.tr.Emit(vrt.M{"ev": "read", "e": op.E, "cap": op.N, "res": "block", "id": 0, "n": 0, "intact": true})

			return
		}
		buf := make([]byte, op.N)
		type rr struct {
			n   int
			err error
		}
		ch := make(chan rr, 1)
		go func() { n, err := r.c[op.E].Read(buf); ch <- rr{n, err} }()
		select {
		case x := <-ch:
			res, id, ok := "ok", 0, true
			switch {
			case errors.Is(x.err, io.EOF):
				res = "eof"
			case x.err != nil:
				res = "other:" + x.err.Error()
			case x.n < 0 || x.n > len(buf):
				ok = false // more bytes reported than the slice can hold
				r.queued[op.E]--
			case x.n == 0:
				id, ok = -1, true // an empty message carries no id: matched by its length
				r.queued[op.E]--
			default:
				id, ok = decode(buf[:x.n])
				r.queued[op.E]--
			}
			r.tr.Emit(vrt.M{"ev": "read", "e": op.E, "cap": op.N, "res": res, "id": id, "n": x.n, "intact": ok})
		case <-time.After(5 * time.Second):
			r.tr.Emit(vrt.M{"ev": "read", "e": op.E, "cap": op.N, "res": "hang", "id": 0, "n": 0, "intact": true})
			r.tr.Close()
			panic("verif: dpipe Read did not return although a message is queued (recorded as res=hang)")
		}
	case "C":
		_ = r.c[op.E].Close()
		r.closed[op.E] = true
		r.tr.Emit(vrt.M{"ev": "close", "e": op.E})
	}
}

// TestVerifDPipeTours replays the transition tours of MC_DPipe.
func TestVerifDPipeTours(t *testing.T) {
	tr := vrt.Open()
	defer tr.Close()
	k := 0
	vrt.ReadScenarios(func(line []byte) {
		var ops []dpOp
		if err := json.Unmarshal(line, &ops); err != nil {
			t.Fatal(err)
		}
		r := newDpRun(tr)
		for _, op := range ops {
			r.apply(op)
		}
		k++
	})
	t.Logf("tours=%d events=%d", k, tr.N)
}

// TestVerifDPipeRandom: seeded histories with many messages in flight.
func TestVerifDPipeRandom(t *testing.T) {
	tr := vrt.Open()
	defer tr.Close()
	rng := rand.New(rand.NewSource(vrt.Seed())) //nolint:gosec
	runs := vrt.EnvInt("VERIF_RUNS", 40)
	steps := vrt.EnvInt("VERIF_OPS", 300)
	for k := 0; k < runs; k++ {
		r := newDpRun(tr)
		for i := 0; i < steps; i++ {
			e := rng.Intn(2)
			switch c := rng.Intn(100); {
			case c < 50:
				if r.queued[1-e] < 900 {
					r.apply(dpOp{Op: "W", E: e, Len: []int{0, 4, 5, 9, 100, 1500, 9000}[rng.Intn(7)]})
				}
			case c < 98:
				r.apply(dpOp{Op: "R", E: e, N: []int{4, 5, 8, 2000, 10000}[rng.Intn(5)]})
			default:
				if i > steps/2 {
					r.apply(dpOp{Op: "C", E: e})
				}
			}
		}
	}
	t.Logf("events=%d", tr.N)
}
