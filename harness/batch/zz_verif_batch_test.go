//go:build verif

package udp

import (
	"math/rand"
	"net"
	"sync"
	"testing"
	"time"

	"github.com/pion/transport/v3/internal/vrt"
)

// TestVerifBatchConn: udp.BatchConn over real loopback sockets (batch writes exist on a real
// socket only), judged by specs/batch/TraceBatch.tla: every message exactly once, in the order of
// the WriteTo calls, not later than 3/2 write intervals after the call, nothing left at Close.
func TestVerifBatchConn(t *testing.T) { //nolint:cyclop
	tr := vrt.Open()
	defer tr.Close()
	rng := rand.New(rand.NewSource(vrt.Seed())) //nolint:gosec
	runs := vrt.EnvInt("VERIF_RUNS", 8)
	slack := 150 * time.Millisecond // scheduling noise of a loaded machine
	for k := 0; k < runs; k++ {
		size := []int{1, 2, 3, 8}[k%4]
		interval := []time.Duration{20 * time.Millisecond, 60 * time.Millisecond}[(k/4)%2]
		rx, err := net.ListenUDP("udp", &net.UDPAddr{IP: net.IPv4(127, 0, 0, 1)})
		if err != nil {
			t.Fatal(err)
		}
		tx, err := net.ListenUDP("udp", &net.UDPAddr{IP: net.IPv4(127, 0, 0, 1)})
		if err != nil {
			t.Fatal(err)
		}
		bc := NewBatchConn(tx, size, interval)
		base := time.Now()
		us := func() int64 { return int64(time.Since(base) / time.Microsecond) }
		type rec struct {
			m int
			t int64
		}
		var mu sync.Mutex
		var got []rec
		done := make(chan struct{})
		go func() {
			defer close(done)
			buf := make([]byte, 9000)
			for {
				n, _, err := rx.ReadFrom(buf)
				if err != nil {
					return
				}
				id, _, ok := dgramID(buf[:n])
				if !ok {
					id = -1
				}
				mu.Lock()
				got = append(got, rec{m: id, t: us()})
				mu.Unlock()
			}
		}()
		tr.Emit(vrt.M{"ev": "reset", "size": size, "interval": int(interval / time.Microsecond), "slack": int(slack / time.Microsecond)})
		m := 0
		for step := 0; step < 10; step++ {
			burst := []int{1, 1, size - 1, size, size + 1, 2*size + 1}[rng.Intn(6)]
			for i := 0; i < burst; i++ {
				m++
				tr.Emit(vrt.M{"ev": "write", "m": m, "t": us()})
				if _, err := bc.WriteTo(dgram(m, 1, true), rx.LocalAddr()); err != nil {
					t.Fatal(err)
				}
			}
			gap := []time.Duration{0, interval / 4, interval, 2 * interval}[rng.Intn(4)]
			time.Sleep(gap)
		}
		_ = bc.Close()
		time.Sleep(30 * time.Millisecond)
		_ = rx.Close()
		<-done
		mu.Lock()
		for _, r := range got {
			tr.Emit(vrt.M{"ev": "recv", "m": r.m, "t": r.t})
		}
		mu.Unlock()
		tr.Emit(vrt.M{"ev": "end"})
	}
	t.Logf("events=%d", tr.N)
}
