//go:build verif

package vnet

import (
	"context"
	"encoding/json"
	"fmt"
	"math/rand"
	"net"
	"os"
	"sync"
	"testing"
	"testing/synctest"
	"time"

	"github.com/pion/logging"
	"github.com/pion/transport/v3/internal/vrt"
)

// ---------------------------------------------------------------- DelayFilter, real time + gate scheduler

type delayScenario struct {
	Name    string `json:"name"`
	DelayUS int    `json:"delay_us"`
	Arr     int    `json:"arrivals"` // number of arriving goroutines, one datagram each
	Sleeps  int    `json:"sleeps"`   // how many times the environment may let real time pass
}

func execDelay(t *testing.T, tr *vrt.Tracer, sc delayScenario, ex *vrt.Explorer, rng *rand.Rand) {
	t.Helper()
	rec := newRecNIC()
	delay := time.Duration(sc.DelayUS) * time.Microsecond
	f, err := NewDelayFilter(rec, delay)
	if err != nil {
		t.Fatal(err)
	}
	s := vrt.NewSched(vrt.RealWait)
	vrt.Install(s)
	var mu sync.Mutex
	emit := func(m vrt.M) { mu.Lock(); tr.Emit(m); mu.Unlock() }
	emit(vrt.M{"ev": "reset", "delay": sc.DelayUS, "scenario": sc.Name})
	rec.hook = nil
	ctx, cancel := context.WithCancel(context.Background())
	var wg sync.WaitGroup
	panicked := false
	wg.Add(1)
	go func() {
		defer wg.Done()
		defer func() {
			if r := recover(); r != nil {
				mu.Lock()
				panicked = true
				tr.Emit(vrt.M{"ev": "panic", "what": fmt.Sprint(r)})
				mu.Unlock()
			}
		}()
		f.Run(ctx)
	}()
	flush := func() {
		for _, d := range rec.take() {
			emit(vrt.M{"ev": "dep", "id": d.id, "t": d.us, "intact": d.intact})
		}
	}
	for i := 1; i <= sc.Arr; i++ {
		wg.Add(1)
		go func(id int) {
			defer wg.Done()
			vrt.Yield("arrival")
			c := rec.mk(rand.New(rand.NewSource(int64(id))), id, 10+id) //nolint:gosec
			emit(vrt.M{"ev": "arr", "id": id, "t": int64(time.Since(rec.base) / time.Microsecond)})
			done := make(chan struct{})
			go func() { // the hand-in blocks forever if the loop has died; do not hang the driver
				defer close(done)
				f.onInboundChunk(c)
			}()
			select {
			case <-done:
				emit(vrt.M{"ev": "arrdone", "id": id})
			case <-ctx.Done():
			}
		}(i)
	}
	sleeps := sc.Sleeps
	for steps := 0; steps < 3000; steps++ {
		parked := s.Parked()
		flush()
		mu.Lock()
		dead := panicked
		mu.Unlock()
		if dead {
			break
		}
		n := len(parked)
		if sleeps > 0 {
			n++
		}
		if n == 0 {
			break
		}
		k := ex.Choose(n)
		if k < len(parked) {
			s.Release(parked[k])

			continue
		}
		sleeps--
		time.Sleep(delay + 300*time.Microsecond) // let a pending expiry happen
	}
	mu.Lock()
	dead := panicked
	mu.Unlock()
	if !dead {
		// liveness: everything handed in must come out once the delay has elapsed
		vrt.Uninstall()
		deadline := time.Now().Add(3 * time.Second)
		for {
			time.Sleep(delay + 500*time.Microsecond)
			vrt.RealWait()
			flush()
			rec.mu.Lock()
			pending := 0
			for range rec.ids {
				pending++
			}
			rec.mu.Unlock()
			mu.Lock()
			dead = panicked
			mu.Unlock()
			if dead || rec.allSeen(sc.Arr) || time.Now().After(deadline) {
				break
			}
		}
		if !dead {
			emit(vrt.M{"ev": "rest", "sched": ex.Trail(), "fine": vrt.IsFine()})
		}
	}
	vrt.Uninstall()
	cancel()
	ended := make(chan struct{})
	go func() { wg.Wait(); close(ended) }()
	select {
	case <-ended:
	case <-time.After(2 * time.Second):
		// the forwarding loop does not end (it is stuck outside its select): what it failed to
		// forward is already recorded at the rest point; leave the goroutine behind
	}
	// hand-ins still blocked on the notification channel (the loop is gone): receive them away
	for {
		select {
		case <-f.push:
			continue
		case <-time.After(200 * time.Microsecond):
		}

		break
	}
}

func (n *recNIC) allSeen(k int) bool {
	n.mu.Lock()
	defer n.mu.Unlock()

	return n.seen >= k
}

// TestVerifDelayFilterSync explores interleavings of the arrival path with the forwarding loop.
func TestVerifDelayFilterSync(t *testing.T) {
	tr := vrt.Open()
	defer tr.Close()
	budget := vrt.EnvInt("VERIF_BUDGET", 300)
	nrand := vrt.EnvInt("VERIF_RANDOM", 200)
	nfine := vrt.EnvInt("VERIF_FINE", nrand/2)
	rng := rand.New(rand.NewSource(vrt.Seed())) //nolint:gosec
	stats := map[string][3]int{}
	vrt.ReadScenarios(func(line []byte) {
		var sc delayScenario
		if err := json.Unmarshal(line, &sc); err != nil {
			t.Fatal(err)
		}
		ex := &vrt.Explorer{}
		exhausted := false
		for ex.Runs < budget {
			ex.Begin()
			execDelay(t, tr, sc, ex, rng)
			if !ex.Next() {
				exhausted = true

				break
			}
		}
		nr := 0
		if !exhausted {
			rex := &vrt.Explorer{Random: true, Rng: rng}
			for ; nr < nrand; nr++ {
				rex.Begin()
				execDelay(t, tr, sc, rex, rng)
			}
		}
		vrt.SetFine(true)
		fex := &vrt.Explorer{Random: true, Rng: rng}
		for k := 0; k < nfine; k++ {
			fex.Begin()
			execDelay(t, tr, sc, fex, rng)
			nr++
		}
		vrt.SetFine(false)
		e := 0
		if exhausted {
			e = 1
		}
		stats[sc.Name] = [3]int{ex.Runs, nr, e}
	})
	b, _ := json.Marshal(stats)
	t.Logf("schedstats=%s events=%d", b, tr.N)
	if p := os.Getenv("VERIF_STATS"); p != "" {
		_ = os.WriteFile(p, b, 0o644)
	}
}

// TestVerifDelayFilterFree: free-running producers in real time (no scheduler): bursts and
// spacing around the delay value, delays 0 .. 10 ms.
func TestVerifDelayFilterFree(t *testing.T) {
	tr := vrt.Open()
	defer tr.Close()
	rng := rand.New(rand.NewSource(vrt.Seed())) //nolint:gosec
	n := vrt.EnvInt("VERIF_N", 400)
	for _, dus := range []int{0, 1, 500, 2000, 10000, 20000} {
		for _, producers := range []int{1, 2} {
			// the last delay value is the burst pattern: a little traffic, a pause, then everything else
			// back to back, so that well over a hundred datagrams are held by the filter at once
			burst := dus == 20000
			if burst && producers == 2 {
				continue
			}
			rec := newRecNIC()
			delay := time.Duration(dus) * time.Microsecond
			f, _ := NewDelayFilter(rec, delay)
			var mu sync.Mutex
			tr.Emit(vrt.M{"ev": "reset", "delay": dus, "scenario": fmt.Sprintf("free-%d-%d", dus, producers)})
			ctx, cancel := context.WithCancel(context.Background())
			var wg sync.WaitGroup
			panicked, stuck := false, false
			wg.Add(1)
			go func() {
				defer wg.Done()
				defer func() {
					if r := recover(); r != nil {
						mu.Lock()
						panicked = true
						mu.Unlock()
						cancel() // release producers blocked in the hand-in
					}
				}()
				f.Run(ctx)
			}()
			// arrivals are serialised by a lock so that the arrival stamps are in hand-in order
			var arrMu sync.Mutex
			next := 0
			var pw sync.WaitGroup
			for p := 0; p < producers; p++ {
				pw.Add(1)
				seed := rng.Int63()
				go func() {
					defer pw.Done()
					r := rand.New(rand.NewSource(seed)) //nolint:gosec
					for {
						arrMu.Lock()
						if next >= n {
							arrMu.Unlock()

							return
						}
						next++
						id := next
						c := rec.mk(r, id, r.Intn(200))
						if !burst && r.Intn(3) == 0 {
							// a chunk that has been under way for a while (e.g. through a router) before it
							// reaches the filter: the delay counts from its arrival at the filter
							c.setTimestamp()
							time.Sleep(delay + time.Duration(r.Intn(300))*time.Microsecond)
						}
						mu.Lock()
						tr.Emit(vrt.M{"ev": "arr", "id": id, "t": int64(time.Since(rec.base) / time.Microsecond)})
						mu.Unlock()
						done := make(chan struct{})
						go func() { defer close(done); f.onInboundChunk(c) }()
						select {
						case <-done:
							mu.Lock()
							tr.Emit(vrt.M{"ev": "arrdone", "id": id})
							mu.Unlock()
						case <-ctx.Done():
						case <-time.After(3 * time.Second):
							// the hand-in does not return: the forwarding loop is no longer taking arrivals;
							// stop producing, what is missing shows at the rest point
							mu.Lock()
							panicked = true
							stuck = true
							mu.Unlock()
						}
						arrMu.Unlock()
						if burst {
							switch {
							case id < 10:
								time.Sleep(time.Millisecond)
							case id == 10:
								time.Sleep(3 * delay)
							}
							mu.Lock()
							dead := panicked
							mu.Unlock()
							if dead {
								return
							}

							continue
						}
						switch r.Intn(4) {
						case 0:
							time.Sleep(delay)
						case 1:
							time.Sleep(delay + 100*time.Microsecond)
						case 2:
							if delay > 100*time.Microsecond {
								time.Sleep(delay - 100*time.Microsecond)
							}
						}
						mu.Lock()
						dead := panicked
						mu.Unlock()
						if dead {
							return
						}
					}
				}()
			}
			pw.Wait()
			end := time.Now().Add(3 * time.Second)
			for !rec.allSeen(n) && time.Now().Before(end) {
				mu.Lock()
				dead := panicked
				mu.Unlock()
				if dead {
					break
				}
				time.Sleep(delay + time.Millisecond)
			}
			// departures were recorded concurrently with arrivals: merge by time for the trace
			deps := rec.take()
			mu.Lock()
			for _, d := range deps {
				tr.Emit(vrt.M{"ev": "dep", "id": d.id, "t": d.us, "intact": d.intact, "late": true})
			}
			if panicked && !stuck {
				tr.Emit(vrt.M{"ev": "panic"})
			} else {
				tr.Emit(vrt.M{"ev": "rest"})
			}
			mu.Unlock()
			cancel()
			ended := make(chan struct{})
			go func() { wg.Wait(); close(ended) }()
			select {
			case <-ended:
			case <-time.After(2 * time.Second): // the loop is stuck outside its select; leave it behind
			}
		}
	}
	t.Logf("events=%d", tr.N)
}

// ---------------------------------------------------------------- Router MinDelay, virtual time

// TestVerifRouterDelay: two hosts on one router with MinDelay (and optional jitter); exact virtual time.
// verifIPOf returns the address the router gave the host.
func verifIPOf(nw *Net) net.IP {
	ifc, err := nw.InterfaceByName("eth0")
	if err != nil {
		panic(err)
	}
	addrs, _ := ifc.Addrs()
	for _, a := range addrs {
		if ipn, ok := a.(*net.IPNet); ok {
			return ipn.IP
		}
	}
	panic("verif: host without an address")
}

func TestVerifRouterDelay(t *testing.T) {
	tr := vrt.Open()
	defer tr.Close()
	rng := rand.New(rand.NewSource(vrt.Seed())) //nolint:gosec
	runs := vrt.EnvInt("VERIF_RUNS", 12)
	n := vrt.EnvInt("VERIF_N", 60)
	for k := 0; k < runs; k++ {
		dus := []int{0, 1, 500, 10000, 50000}[k%5]
		jus := 0 // MaxJitter sleeps while holding the router lock, which a synctest bubble cannot advance past
		synctest.Test(t, func(t *testing.T) {
			router, err := NewRouter(&RouterConfig{
				CIDR: "10.0.0.0/24", MinDelay: time.Duration(dus) * time.Microsecond,
				MaxJitter: time.Duration(jus) * time.Microsecond, LoggerFactory: logging.NewDefaultLoggerFactory(),
			})
			if err != nil {
				t.Fatal(err)
			}
			n1, _ := NewNet(&NetConfig{})
			n2, _ := NewNet(&NetConfig{})
			// every third run: the sender sits behind a second router with the same minimum delay (a LAN
			// behind a NAT): the datagram is delayed by each router it crosses
			chain := k%3 == 2
			total := dus
			if chain {
				lan, err := NewRouter(&RouterConfig{
					CIDR: "192.168.0.0/24", MinDelay: time.Duration(dus) * time.Microsecond,
					StaticIPs: []string{"10.0.0.100"}, LoggerFactory: logging.NewDefaultLoggerFactory(),
				})
				if err != nil {
					t.Fatal(err)
				}
				_ = lan.AddNet(n1)
				if err := router.AddRouter(lan); err != nil {
					t.Fatal(err)
				}
				total = 2 * dus
			} else {
				_ = router.AddNet(n1)
			}
			block := 0
			if k%2 == 1 && dus > 1 && !chain {
				block = []int{dus / 2, dus * 6 / 10, dus}[rng.Intn(3)]
				_ = router.AddNet(&slowNIC{Net: n2, d: time.Duration(block) * time.Microsecond})
			} else {
				_ = router.AddNet(n2)
			}
			if err := router.Start(); err != nil {
				t.Fatal(err)
			}
			c1, err := n1.ListenUDP("udp4", &net.UDPAddr{IP: verifIPOf(n1), Port: 1111})
			if err != nil {
				t.Fatal(err)
			}
			c2, err := n2.ListenUDP("udp4", &net.UDPAddr{IP: verifIPOf(n2), Port: 2222})
			if err != nil {
				t.Fatal(err)
			}
			base := time.Now()
			var mu sync.Mutex
			tr.Emit(vrt.M{"ev": "reset", "delay": total, "scenario": fmt.Sprintf("router-%d-j%d-chain%v", dus, jus, chain)})
			want := map[int][]byte{}
			var rwg sync.WaitGroup
			rwg.Add(1)
			go func() {
				defer rwg.Done()
				buf := make([]byte, 2000)
				for {
					nn, _, err := c2.ReadFrom(buf)
					if err != nil {
						return
					}
					id := -1
					if nn >= 4 {
						id = int(buf[0]) | int(buf[1])<<8 | int(buf[2])<<16 | int(buf[3])<<24
					}
					mu.Lock()
					ok := string(want[id]) == string(buf[:nn])
					tr.Emit(vrt.M{"ev": "dep", "id": id, "t": int64(time.Since(base) / time.Microsecond), "intact": ok})
					mu.Unlock()
				}
			}()
			for i := 1; i <= n; i++ {
				p := make([]byte, 4+rng.Intn(100))
				p[0], p[1], p[2], p[3] = byte(i), byte(i>>8), byte(i>>16), byte(i>>24)
				for j := 4; j < len(p); j++ {
					p[j] = byte(rng.Intn(256))
				}
				mu.Lock()
				want[i] = append([]byte(nil), p...)
				tr.Emit(vrt.M{"ev": "arr", "id": i, "t": int64(time.Since(base) / time.Microsecond)})
				mu.Unlock()
				if _, err := c1.WriteTo(p, c2.LocalAddr()); err != nil {
					t.Fatal(err)
				}
				mu.Lock()
				tr.Emit(vrt.M{"ev": "arrdone", "id": i})
				mu.Unlock()
				for j := range p {
					p[j] = 0xEE
				}
				switch rng.Intn(6) {
				case 0:
					time.Sleep(time.Duration(dus) * time.Microsecond)
				case 1:
					time.Sleep(time.Duration(dus)*time.Microsecond + time.Microsecond)
				case 2:
					if dus > 1 {
						time.Sleep(time.Duration(dus-1) * time.Microsecond)
					}
				case 3:
					synctest.Wait()
				case 4:
					if dus > 10 {
						time.Sleep(time.Duration(rng.Intn(dus)) * time.Microsecond)
					}
				}
			}
			time.Sleep(time.Duration(total+jus*n+block*(n+1)+1000) * time.Microsecond)
			synctest.Wait()
			mu.Lock()
			tr.Emit(vrt.M{"ev": "rest"})
			mu.Unlock()
			_ = router.Stop()
			_ = c1.Close()
			_ = c2.Close()
			rwg.Wait()
		})
	}
	t.Logf("events=%d", tr.N)
}

// TestVerifRouterJitter: MinDelay with MaxJitter in real time (safety clauses only: the
// measured span over-approximates the true one, so noise cannot cause an alarm).
func TestVerifRouterJitter(t *testing.T) {
	tr := vrt.Open()
	defer tr.Close()
	rng := rand.New(rand.NewSource(vrt.Seed())) //nolint:gosec
	n := vrt.EnvInt("VERIF_N", 40)
	for _, cfg := range [][2]int{{0, 300}, {1000, 500}, {3000, 2000}} {
		dus, jus := cfg[0], cfg[1]
		router, err := NewRouter(&RouterConfig{
			CIDR: "10.0.0.0/24", MinDelay: time.Duration(dus) * time.Microsecond,
			MaxJitter: time.Duration(jus) * time.Microsecond, LoggerFactory: logging.NewDefaultLoggerFactory(),
		})
		if err != nil {
			t.Fatal(err)
		}
		n1, _ := NewNet(&NetConfig{})
		n2, _ := NewNet(&NetConfig{})
		_ = router.AddNet(n1)
		_ = router.AddNet(n2)
		_ = router.Start()
		c1, _ := n1.ListenUDP("udp4", &net.UDPAddr{IP: net.ParseIP("10.0.0.1"), Port: 1111})
		c2, _ := n2.ListenUDP("udp4", &net.UDPAddr{IP: net.ParseIP("10.0.0.2"), Port: 2222})
		base := time.Now()
		var mu sync.Mutex
		tr.Emit(vrt.M{"ev": "reset", "delay": dus, "scenario": fmt.Sprintf("router-rt-%d-j%d", dus, jus)})
		want := map[int][]byte{}
		got := 0
		var rwg sync.WaitGroup
		rwg.Add(1)
		go func() {
			defer rwg.Done()
			buf := make([]byte, 2000)
			for {
				nn, _, err := c2.ReadFrom(buf)
				if err != nil {
					return
				}
				id := -1
				if nn >= 4 {
					id = int(buf[0]) | int(buf[1])<<8 | int(buf[2])<<16 | int(buf[3])<<24
				}
				mu.Lock()
				ok := string(want[id]) == string(buf[:nn])
				tr.Emit(vrt.M{"ev": "dep", "id": id, "t": int64(time.Since(base) / time.Microsecond), "intact": ok})
				got++
				mu.Unlock()
			}
		}()
		for i := 1; i <= n; i++ {
			p := make([]byte, 4+rng.Intn(100))
			p[0], p[1], p[2], p[3] = byte(i), byte(i>>8), byte(i>>16), byte(i>>24)
			mu.Lock()
			want[i] = append([]byte(nil), p...)
			tr.Emit(vrt.M{"ev": "arr", "id": i, "t": int64(time.Since(base) / time.Microsecond)})
			mu.Unlock()
			_, _ = c1.WriteTo(p, c2.LocalAddr())
			mu.Lock()
			tr.Emit(vrt.M{"ev": "arrdone", "id": i})
			mu.Unlock()
			if rng.Intn(3) == 0 {
				time.Sleep(time.Duration(rng.Intn(dus+200)) * time.Microsecond)
			}
		}
		end := time.Now().Add(5 * time.Second)
		for time.Now().Before(end) {
			mu.Lock()
			g := got
			mu.Unlock()
			if g >= n {
				break
			}
			time.Sleep(2 * time.Millisecond)
		}
		mu.Lock()
		tr.Emit(vrt.M{"ev": "rest"})
		mu.Unlock()
		_ = router.Stop()
		_ = c1.Close()
		_ = c2.Close()
		rwg.Wait()
	}
	t.Logf("events=%d", tr.N)
}

// slowNIC is a host whose reception takes a while (the router hands chunks over synchronously).
type slowNIC struct {
	*Net
	d time.Duration
}

func (s *slowNIC) onInboundChunk(c Chunk) {
	time.Sleep(s.d)
	s.Net.onInboundChunk(c)
}
