//go:build verif

package vnet

import (
	"math"
	"math/rand"
	"net"
	"strconv"
	"sync"
	"testing"
	"testing/synctest"
	"time"

	"github.com/pion/transport/v3"
	"github.com/pion/transport/v3/internal/vrt"
)

// recNIC is the downstream NIC of a filter under test: it records what it is handed.
type recNIC struct {
	mu   sync.Mutex
	ids  map[Chunk]int
	want map[int][]byte
	base time.Time
	got  []recDep
	seen int
	hook func()
	onID func(id int)
}

type recDep struct {
	id     int
	n      int
	intact bool
	ms     int
	us     int64
}

func newRecNIC() *recNIC {
	return &recNIC{ids: map[Chunk]int{}, want: map[int][]byte{}, base: time.Now()}
}

func (n *recNIC) getInterface(string) (*transport.Interface, error) { return nil, errNoInterface }
func (n *recNIC) getStaticIPs() []net.IP                            { return nil }
func (n *recNIC) setRouter(*Router) error                           { return nil }
func (n *recNIC) onInboundChunk(c Chunk) {
	n.mu.Lock()
	id, ok := n.ids[c]
	if !ok {
		id = -1
	}
	d := recDep{id: id, n: len(c.UserData()), ms: int(time.Since(n.base) / time.Millisecond), us: int64(time.Since(n.base) / time.Microsecond)}
	d.intact = ok && string(c.UserData()) == string(n.want[id])
	n.got = append(n.got, d)
	n.seen++
	h, g := n.hook, n.onID
	n.mu.Unlock()
	if h != nil {
		h()
	}
	if g != nil {
		g(id)
	}
}

func (n *recNIC) take() []recDep {
	n.mu.Lock()
	defer n.mu.Unlock()
	g := n.got
	n.got = nil

	return g
}

func (n *recNIC) mk(rng *rand.Rand, id, size int) Chunk {
	c := newChunkUDP(&net.UDPAddr{IP: net.IPv4(10, 0, 0, 1), Port: 1000 + id%50000},
		&net.UDPAddr{IP: net.IPv4(10, 0, 0, 2), Port: 2000})
	c.userData = make([]byte, size)
	for i := range c.userData {
		c.userData[i] = byte(rng.Intn(256))
	}
	n.mu.Lock()
	n.ids[c] = id
	n.want[id] = append([]byte(nil), c.userData...)
	n.mu.Unlock()

	return c
}

func (n *recNIC) nowMS() int { return int(time.Since(n.base) / time.Millisecond) }

// ---------------------------------------------------------------- C16

// TestVerifLoss streams datagrams through the real LossFilter for many chances.
func TestVerifLoss(t *testing.T) {
	tr := vrt.Open()
	defer tr.Close()
	rng := rand.New(rand.NewSource(vrt.Seed())) //nolint:gosec
	n := vrt.EnvInt("VERIF_N", 10000)
	chances := []int{-5, 0, 1, 5, 10, 20, 25, 28, 33, 50, 66, 75, 90, 99, 100, 101, 150, 175, 250, 1000}
	// far out of range, around the word sizes
	chances = append(chances, 1<<31-1, 1<<31, 1<<32, 1<<40, math.MaxInt64, -1<<31, -1<<40, math.MinInt64)
	if vrt.EnvInt("VERIF_ALL", 0) == 1 {
		chances = chances[:0]
		for c := -2; c <= 103; c++ {
			chances = append(chances, c)
		}
		chances = append(chances, 150, 175, 250, 1000, 1<<20, 1<<31-1, 1<<31, 1<<32, 1<<40, math.MaxInt64, -1<<31, -1<<40, math.MinInt64)
	}
	for _, ch := range chances {
		rec := newRecNIC()
		f, err := NewLossFilter(rec, ch)
		if err != nil {
			t.Fatal(err)
		}
		// the specification distinguishes <= 0, 1..99 and >= 100 only; TLC's integers are 32 bits wide
		mch := ch
		if mch > 1000000 {
			mch = 1000000
		}
		if mch < -1000000 {
			mch = -1000000
		}
		tr.Emit(vrt.M{"ev": "reset", "chance": mch, "configured": strconv.Itoa(ch)})
		for i := 1; i <= n; i++ {
			c := rec.mk(rng, i, rng.Intn(1501)*(rng.Intn(4)/3)+rng.Intn(40))
			f.onInboundChunk(c)
			out := []int{}
			intact := true
			for _, d := range rec.take() {
				out = append(out, d.id)
				intact = intact && d.intact
			}
			tr.Emit(vrt.M{"ev": "arr", "id": i, "out": out, "intact": intact})
			delete(rec.ids, c)
			delete(rec.want, i)
		}
		tr.Emit(vrt.M{"ev": "end"})
	}
	t.Logf("events=%d", tr.N)
}

// TestVerifLossReentrant: the next NIC reacts to a datagram by handing further datagrams to the
// filter from within the call (a responder directly behind the filter).
func TestVerifLossReentrant(t *testing.T) {
	tr := vrt.Open()
	defer tr.Close()
	rng := rand.New(rand.NewSource(vrt.Seed())) //nolint:gosec
	runs := vrt.EnvInt("VERIF_RUNS", 150)
	for _, ch := range []int{0, -3, 100, 130, 20, 50} {
		rec := newRecNIC()
		f, err := NewLossFilter(rec, ch)
		if err != nil {
			t.Fatal(err)
		}
		tr.Emit(vrt.M{"ev": "reset", "chance": ch})
		next := 0
		for r := 0; r < runs; r++ {
			budget := 2 + rng.Intn(12)
			arrs := []int{}
			push := func(id int) {
				arrs = append(arrs, id)
				f.onInboundChunk(rec.mk(rng, id, rng.Intn(60)))
			}
			rec.onID = func(int) {
				for k := rng.Intn(4); k > 0 && budget > 0; k-- {
					budget--
					next++
					push(next)
				}
			}
			next++
			push(next)
			out := []int{}
			intact := true
			for _, d := range rec.take() {
				out = append(out, d.id)
				intact = intact && d.intact
			}
			tr.Emit(vrt.M{"ev": "batch", "arrs": arrs, "out": out, "intact": intact})
			rec.ids = map[Chunk]int{}
			rec.want = map[int][]byte{}
		}
		tr.Emit(vrt.M{"ev": "end"})
	}
	t.Logf("events=%d", tr.N)
}

// ---------------------------------------------------------------- C15

// tbfRun records one history. Whether an arriving datagram was kept is not observable at the time
// (the queue is private): the run ends by raising rate and burst until everything queued has left,
// and a datagram counts as kept exactly if it was forwarded by then. The events are written out
// at the end, with that field filled in.
type tbfRun struct {
	tr  *vrt.Tracer
	rec *recNIC
	f   *TokenBucketFilter
	rng *rand.Rand
	id  int
	evs []vrt.M
	out map[int]bool
}

func (r *tbfRun) emit(m vrt.M) { r.evs = append(r.evs, m) }

func (r *tbfRun) deps() bool {
	any := false
	for _, d := range r.rec.take() {
		r.emit(vrt.M{"ev": "dep", "id": d.id, "len": d.n, "t": d.ms, "intact": d.intact})
		r.out[d.id] = true
		any = true
	}

	return any
}

func (r *tbfRun) flush() {
	for _, m := range r.evs {
		if m["ev"] == "arr" {
			m["kept"] = r.out[m["id"].(int)] //nolint:forcetypeassert
		}
		r.tr.Emit(m)
	}
	r.evs = nil
}

func (r *tbfRun) arrive(size int) bool {
	r.id++
	c := r.rec.mk(r.rng, r.id, size)
	t := r.rec.nowMS()
	r.f.onInboundChunk(c)
	synctest.Wait()
	r.emit(vrt.M{"ev": "arr", "id": r.id, "len": size, "t": t, "kept": false})

	return r.deps()
}

// TestVerifTBF drives the real TokenBucketFilter in virtual time with seeded arrival plans.
func TestVerifTBF(t *testing.T) { //nolint:cyclop,gocognit
	tr := vrt.Open()
	defer tr.Close()
	rng := rand.New(rand.NewSource(vrt.Seed())) //nolint:gosec
	runs := vrt.EnvInt("VERIF_RUNS", 60)
	ops := vrt.EnvInt("VERIF_OPS", 120)
	rates := []int{1, 2, 10, 125, 1250, 12500} // bytes per ms (x 8000 = bit/s)
	bursts := []int{1, 100, 1500, 8000, 64000}
	qcaps := []int{1, 1500, 50000, 0}
	gaps := []int{0, 0, 0, 0, 1, 1, 2, 5, 50, 99, 100, 101, 150, 1000, 1001, 2500, 10000, 10000000}
	for k := 0; k < runs; k++ {
		synctest.Test(t, func(*testing.T) {
			rate := rates[rng.Intn(len(rates))]
			burst := bursts[rng.Intn(len(bursts))]
			qcap := qcaps[rng.Intn(len(qcaps))]
			rec := newRecNIC()
			f, err := NewTokenBucketFilter(rec, TBFRate(rate*8000), TBFMaxBurst(burst), TBFQueueSizeInBytes(qcap))
			if err != nil {
				t.Fatal(err)
			}
			synctest.Wait()
			r := &tbfRun{tr: tr, rec: rec, f: f, rng: rng, out: map[int]bool{}}
			r.emit(vrt.M{"ev": "reset", "rate": rate, "burst": burst, "qcap": qcap})
			changes := rng.Intn(3) == 0
			for i := 0; i < ops; i++ {
				g := gaps[rng.Intn(len(gaps))]
				if g > 0 {
					time.Sleep(time.Duration(g) * time.Millisecond)
				}
				if changes && rng.Intn(12) == 0 {
					if rng.Intn(2) == 0 {
						rate = rates[rng.Intn(len(rates))]
						f.Set(TBFRate(rate * 8000))
						r.emit(vrt.M{"ev": "rate", "v": rate, "t": rec.nowMS()})
					} else {
						burst = bursts[rng.Intn(len(bursts))]
						f.Set(TBFMaxBurst(burst))
						r.emit(vrt.M{"ev": "burst", "v": burst, "t": rec.nowMS()})
					}

					continue
				}
				var size int
				switch rng.Intn(9) {
				case 0:
					size = 0
				case 1:
					size = 1
				case 2:
					size = burst
				case 3:
					size = burst + 1
				case 4:
					size = burst / 2
				case 5:
					size = 1200
				case 6:
					size = 2*burst + rng.Intn(3)
				default:
					size = rng.Intn(minInt(burst, 3000) + 1)
				}
				if size > 65000 {
					size = 65000
				}
				burstN := 1
				if rng.Intn(5) == 0 {
					burstN = 2 + rng.Intn(30) // a burst far above the rate
				}
				for b := 0; b < burstN; b++ {
					r.arrive(size)
				}
			}
			// let everything that is queued leave
			f.Set(TBFRate(12500 * 8000))
			r.emit(vrt.M{"ev": "rate", "v": 12500, "t": rec.nowMS()})
			f.Set(TBFMaxBurst(500000000))
			r.emit(vrt.M{"ev": "burst", "v": 500000000, "t": rec.nowMS()})
			for i := 0; i < 12; i++ {
				time.Sleep(20 * time.Second)
				if !r.arrive(0) && i > 0 {
					break
				}
			}
			_ = f.Close()
			r.deps()
			r.flush()
		})
	}
	t.Logf("events=%d", tr.N)
}

func minInt(a, b int) int {
	if a < b {
		return a
	}

	return b
}
