//go:build verif

package deadline

import (
	"math/rand"
	"testing"
	"testing/synctest"
	"time"

	"github.com/pion/transport/v3/internal/vrt"
)

// obsRun observes a Deadline through its public API only.
type obsRun struct {
	tr   *vrt.Tracer
	d    *Deadline
	base time.Time
	last <-chan struct{}
	nch  int
}

func (r *obsRun) init(tr *vrt.Tracer, d *Deadline, mode string) {
	r.tr = tr
	r.d = d
	r.base = time.Now()
	r.last = d.Done()
	tr.Emit(vrt.M{"ev": "reset", "mode": mode})
}

// tick converts an instant to model ticks (1 tick = 1 s, the run starts at tick 1).
func (r *obsRun) tick(t time.Time) int {
	return int(t.Sub(r.base)/time.Second) + 1
}

func (r *obsRun) emit(m vrt.M) {
	ch := r.d.Done()
	if ch != r.last {
		r.nch++
		r.last = ch
	}
	closed := false
	select {
	case <-ch:
		closed = true
	default:
	}
	dl := 0
	if t, ok := r.d.Deadline(); ok {
		dl = r.tick(t)
	}
	m["now"] = r.tick(time.Now())
	m["closed"] = closed
	m["err"] = r.d.Err() != nil
	m["chan"] = r.nch
	m["dl"] = dl
	r.tr.Emit(m)
}

func (r *obsRun) set(k string) {
	var t time.Time
	switch k {
	case "zero":
	case "past":
		t = time.Now()         // an instant that has passed by the time Set looks at the clock (dur <= 0)
		if rand.Intn(2) == 0 { //nolint:gosec
			t = t.Add(-time.Duration(rand.Intn(int(time.Now().Sub(r.base)/time.Second)+1)) * time.Second) //nolint:gosec
		}
	case "p1":
		t = time.Now().Add(time.Second)
	case "p2":
		t = time.Now().Add(2 * time.Second)
	default:
		t = time.Now().Add(3 * time.Second)
	}
	r.d.Set(t)
	at := 0
	if !t.IsZero() {
		at = r.tick(t)
	}
	r.emit(vrt.M{"ev": "set", "t": at})
}

func (r *obsRun) adv(n int) {
	time.Sleep(time.Duration(n) * time.Second)
	synctest.Wait()
	r.emit(vrt.M{"ev": "adv", "d": n})
}

// TestVerifDeadlineReal: public API only, real time.AfterFunc inside a synctest bubble
// (survives renames of unexported identifiers; no delayed callbacks).
func TestVerifDeadlineReal(t *testing.T) {
	tr := vrt.Open()
	defer tr.Close()
	rng := rand.New(rand.NewSource(vrt.Seed())) //nolint:gosec
	runs := vrt.EnvInt("VERIF_RUNS", 40)
	ops := vrt.EnvInt("VERIF_OPS", 80)
	for k := 0; k < runs; k++ {
		synctest.Test(t, func(*testing.T) {
			r := &obsRun{}
			r.init(tr, New(), "real")
			for i := 0; i < ops; i++ {
				if rng.Intn(100) < 55 {
					r.set([]string{"zero", "past", "p1", "p1", "p2", "p2", "p3"}[rng.Intn(7)])
				} else {
					r.adv(1 + rng.Intn(2))
				}
			}
			r.d.Set(time.Time{}) // leave no timer behind when the bubble ends
		})
	}
	t.Logf("events=%d", tr.N)
}
