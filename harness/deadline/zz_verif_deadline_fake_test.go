//go:build verif && !verif_nofake

package deadline

import (
	"encoding/json"
	"math/rand"
	"testing"
	"testing/synctest"
	"time"

	"github.com/pion/transport/v3/internal/vrt"
)

// fakeTimer plays the Go runtime timer: armed until the harness dispatches it.
type fakeTimer struct {
	armed bool
	at    time.Time
}

func (f *fakeTimer) Stop() bool {
	was := f.armed
	f.armed = false

	return was
}

func (f *fakeTimer) Reset(d time.Duration) bool {
	was := f.armed
	f.armed = true
	f.at = time.Now().Add(d)

	return was
}

type dlRun struct {
	obsRun
	ft   *fakeTimer
	infl int
}

func newFakeRun(tr *vrt.Tracer) *dlRun {
	d := New()
	ft := &fakeTimer{}
	d.timer = ft
	r := &dlRun{ft: ft}
	r.init(tr, d, "fake")

	return r
}

func (r *dlRun) checkInstalled() {
	if r.d.timer != timer(r.ft) {
		panic("verif-infra: the Deadline replaced the injected fake timer; fake-timer harness not applicable")
	}
}

func (r *dlRun) dispatch() {
	did := false
	if r.ft.armed && !time.Now().Before(r.ft.at) {
		r.ft.armed = false
		r.infl++
		did = true
	}
	r.emit(vrt.M{"ev": "dispatch", "did": did})
}

func (r *dlRun) run() {
	did := false
	if r.infl > 0 {
		r.infl--
		r.d.timeout()
		did = true
	}
	r.emit(vrt.M{"ev": "run", "did": did})
}

func (r *dlRun) flush() {
	r.dispatch()
	for r.infl > 0 {
		r.run()
	}
}

type dlOp struct {
	Op string `json:"op"`
	K  string `json:"k"`
}

func (r *dlRun) apply(op dlOp) {
	switch op.Op {
	case "S":
		r.set(op.K)
		r.checkInstalled()
	case "A":
		r.adv(1)
	case "D":
		r.dispatch()
	case "R":
		r.run()
	}
}

// TestVerifDeadlineTours replays the transition tours of MC_Deadline with the fake runtime timer.
func TestVerifDeadlineTours(t *testing.T) {
	tr := vrt.Open()
	defer tr.Close()
	n := 0
	vrt.ReadScenarios(func(line []byte) {
		var ops []dlOp
		if err := json.Unmarshal(line, &ops); err != nil {
			t.Fatal(err)
		}
		synctest.Test(t, func(*testing.T) {
			r := newFakeRun(tr)
			for _, op := range ops {
				r.apply(op)
			}
			r.flush()
		})
		n++
	})
	t.Logf("tours=%d events=%d", n, tr.N)
}

// TestVerifDeadlineFakeRandom: long seeded histories with up to 3 outstanding callbacks.
func TestVerifDeadlineFakeRandom(t *testing.T) {
	tr := vrt.Open()
	defer tr.Close()
	rng := rand.New(rand.NewSource(vrt.Seed())) //nolint:gosec
	runs := vrt.EnvInt("VERIF_RUNS", 40)
	ops := vrt.EnvInt("VERIF_OPS", 120)
	for k := 0; k < runs; k++ {
		synctest.Test(t, func(*testing.T) {
			r := newFakeRun(tr)
			for i := 0; i < ops; i++ {
				switch c := rng.Intn(100); {
				case c < 35:
					r.set([]string{"zero", "past", "p1", "p1", "p2", "p2", "p3"}[rng.Intn(7)])
					r.checkInstalled()
				case c < 60:
					r.adv(1 + rng.Intn(2))
				case c < 80:
					if r.infl < 3 {
						r.dispatch()
					} else {
						r.run()
					}
				default:
					r.run()
				}
			}
			r.flush()
		})
	}
	t.Logf("events=%d", tr.N)
}
