//go:build verif

package test_test

import (
	"encoding/json"
	"math/rand"
	"net"
	"sync"
	"testing"
	"testing/synctest"

	"github.com/pion/transport/v3/internal/vrt"
	"github.com/pion/transport/v3/test"
)

func mkPayload(id uint32, n int) []byte {
	p := make([]byte, n)
	for i := range p {
		p[i] = payloadByte(id, i)
	}

	return p
}

func payloadByte(id uint32, i int) byte {
	if i < 4 {
		return byte(id >> (8 * uint(i)))
	}
	x := id*2654435761 + uint32(i)*40503 //nolint:gosec
	x ^= x >> 15

	return byte(x)
}

func decode(p []byte) (id int, intact bool) {
	if len(p) < 4 {
		return -1, false
	}
	u := uint32(p[0]) | uint32(p[1])<<8 | uint32(p[2])<<16 | uint32(p[3])<<24
	for i := 4; i < len(p); i++ {
		if p[i] != payloadByte(u, i) {
			return int(u), false
		}
	}

	return int(u), true
}

type brOp struct {
	Op  string `json:"op"`
	S   int    `json:"s"`
	N   int    `json:"n"`
	Off int    `json:"off"`
	F   string `json:"f"`
	Len int    `json:"len"`
}

type brRun struct {
	tr    *vrt.Tracer
	br    *test.Bridge
	conns [2]net.Conn
	mu    sync.Mutex
	id    uint32
	wg    sync.WaitGroup
}

func newBrRun(tr *vrt.Tracer, caps [2][]int) *brRun {
	r := &brRun{tr: tr, br: test.NewBridge()}
	r.conns = [2]net.Conn{r.br.GetConn0(), r.br.GetConn1()}
	tr.Emit(vrt.M{"ev": "reset"})
	for side := 0; side < 2; side++ {
		r.wg.Add(1)
		go func(side int) {
			defer r.wg.Done()
			buf := make([]byte, 4096)
			for k := 0; ; k++ {
				c := caps[side][k%len(caps[side])]
				n, err := r.conns[side].Read(buf[:c])
				if err != nil {
					return
				}
				id, ok := -1, false
				if n >= 0 && n <= c {
					id, ok = decode(buf[:n])
				}
				r.mu.Lock()
				r.tr.Emit(vrt.M{"ev": "recv", "r": side, "id": id, "n": n, "cap": c, "intact": ok})
				r.mu.Unlock()
			}
		}(side)
	}
	synctest.Wait()

	return r
}

func (r *brRun) emit(m vrt.M) { r.mu.Lock(); r.tr.Emit(m); r.mu.Unlock() }

func (r *brRun) apply(op brOp) {
	switch op.Op {
	case "W":
		r.id++
		n := op.Len
		if n < 4 {
			n = 4
		}
		p := mkPayload(r.id, n)
		r.emit(vrt.M{"ev": "write", "s": op.S, "id": int(r.id), "len": n})
		_, _ = r.conns[op.S].Write(p)
		for i := range p {
			p[i] = 0xEE
		}
	case "DN":
		r.br.DropNextNWrites(op.S, op.N)
		r.emit(vrt.M{"ev": "dropnext", "s": op.S, "n": op.N})
	case "RN":
		r.br.ReorderNextNWrites(op.S, op.N)
		r.emit(vrt.M{"ev": "reordernext", "s": op.S, "n": op.N})
	case "F":
		var cb func([]byte) bool
		switch op.F {
		case "odd":
			cb = func(b []byte) bool { id, _ := decode(b); return id%2 == 1 }
		case "nothing":
			cb = func([]byte) bool { return false }
		}
		r.br.Filter(op.S, cb)
		r.emit(vrt.M{"ev": "filter", "s": op.S, "f": op.F})
	case "DA":
		r.br.Drop(op.S, op.Off, op.N)
		r.emit(vrt.M{"ev": "dropat", "s": op.S, "off": op.Off, "n": op.N})
	case "RQ":
		err := r.br.Reorder(op.S)
		r.emit(vrt.M{"ev": "reorderq", "s": op.S, "err": err != nil})
	case "T":
		r.br.Tick()
	}
	synctest.Wait()
}

func (r *brRun) finish() {
	r.br.Process()
	synctest.Wait()
	r.emit(vrt.M{"ev": "drained"})
	_ = r.conns[0].Close()
	_ = r.conns[1].Close()
	r.br.Tick()
	r.wg.Wait()
}

var capSets = [][2][]int{{{4096}, {4096}}, {{6, 4096}, {4096, 5}}, {{4}, {7, 4096, 4}}} //nolint:gochecknoglobals

// TestVerifBridgeTours replays transition tours of MC_Bridge on the real Bridge.
func TestVerifBridgeTours(t *testing.T) {
	tr := vrt.Open()
	defer tr.Close()
	k := 0
	vrt.ReadScenarios(func(line []byte) {
		var ops []brOp
		if err := json.Unmarshal(line, &ops); err != nil {
			t.Fatal(err)
		}
		synctest.Test(t, func(*testing.T) {
			r := newBrRun(tr, capSets[k%len(capSets)])
			for _, op := range ops {
				r.apply(op)
			}
			r.finish()
		})
		k++
	})
	t.Logf("tours=%d events=%d", k, tr.N)
}

// TestVerifBridgeRandom: long seeded scripts in both directions.
func TestVerifBridgeRandom(t *testing.T) {
	tr := vrt.Open()
	defer tr.Close()
	rng := rand.New(rand.NewSource(vrt.Seed())) //nolint:gosec
	runs := vrt.EnvInt("VERIF_RUNS", 40)
	steps := vrt.EnvInt("VERIF_OPS", 120)
	for k := 0; k < runs; k++ {
		synctest.Test(t, func(*testing.T) {
			r := newBrRun(tr, capSets[rng.Intn(len(capSets))])
			pendingRN := [2]int{}
			for i := 0; i < steps; i++ {
				s := rng.Intn(2)
				switch c := rng.Intn(100); {
				case c < 50:
					r.apply(brOp{Op: "W", S: s, Len: []int{4, 5, 8, 100, 1200, 2000}[rng.Intn(6)]})
					if pendingRN[s] > 0 {
						pendingRN[s]--
					}
				case c < 65:
					r.apply(brOp{Op: "T"})
				case c < 72:
					r.apply(brOp{Op: "DN", S: s, N: rng.Intn(4)})
				case c < 82:
					if pendingRN[s] == 0 || rng.Intn(3) == 0 { // also re-armed while a collection is in progress
						n := rng.Intn(4)
						r.apply(brOp{Op: "RN", S: s, N: n})
						pendingRN[s] = n
					}
				case c < 87:
					r.apply(brOp{Op: "F", S: s, F: []string{"none", "odd", "none", "nothing"}[rng.Intn(4)]})
				case c < 93:
					l := r.br.Len(s)
					if l > 0 {
						r.apply(brOp{Op: "DA", S: s, Off: rng.Intn(l), N: 1 + rng.Intn(3)})
					}
				default:
					r.apply(brOp{Op: "RQ", S: s})
				}
			}
			r.finish()
		})
	}
	t.Logf("events=%d", tr.N)
}
