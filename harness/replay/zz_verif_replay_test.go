//go:build verif

package replaydetector_test

import (
	"encoding/json"
	"math/rand"
	"strconv"
	"testing"

	"github.com/pion/transport/v3/internal/vrt"
	"github.com/pion/transport/v3/replaydetector"
)

type rdCfg struct {
	Kind string `json:"kind"`
	W    uint   `json:"W"`
	Max  string `json:"max"`
}

type rdOp struct {
	N   string `json:"n"`
	Acc bool   `json:"acc"`
}

type rdScenario struct {
	Cfg rdCfg  `json:"cfg"`
	Ops []rdOp `json:"ops"`
}

type rdRun struct {
	tr  *vrt.Tracer
	det replaydetector.ReplayDetector
}

func newRun(tr *vrt.Tracer, kind string, w uint, maxSeq uint64) *rdRun {
	r := &rdRun{tr: tr}
	if kind == "wrap" {
		r.det = replaydetector.WithWrap(w, maxSeq)
	} else {
		r.det = replaydetector.New(w, maxSeq)
	}
	tr.Emit(vrt.M{"ev": "reset", "kind": kind, "W": w, "max": vrt.Limbs(maxSeq)})

	return r
}

// step performs one Check and, if it succeeded and acc is set, invokes accept.
func (r *rdRun) step(s uint64, acc bool) (ok, invoked, fl bool) {
	accept, ok := r.det.Check(s)
	if ok && acc {
		invoked = true
		fl = accept()
	}
	r.tr.Emit(vrt.M{"ev": "check", "s": vrt.Limbs(s), "ok": ok, "acc": invoked, "fl": fl})

	return ok, invoked, fl
}

// TestVerifReplayTours replays the transition tours of the TLC state graph.
func TestVerifReplayTours(t *testing.T) {
	tr := vrt.Open()
	defer tr.Close()
	n := 0
	vrt.ReadScenarios(func(line []byte) {
		var sc rdScenario
		if err := json.Unmarshal(line, &sc); err != nil {
			t.Fatal(err)
		}
		mx, _ := strconv.ParseUint(sc.Cfg.Max, 10, 64)
		r := newRun(tr, sc.Cfg.Kind, sc.Cfg.W, mx)
		for _, op := range sc.Ops {
			s, _ := strconv.ParseUint(op.N, 10, 64)
			r.step(s, op.Acc)
		}
		n++
	})
	t.Logf("tours=%d events=%d", n, tr.N)
}

// TestVerifReplayDriver generates real-scale histories: window sizes around every
// multiple of 64, maxima up to 2^64-1, numbers drawn relative to the newest
// accepted number (generator heuristic only; the oracle is the TLA+ spec).
func TestVerifReplayDriver(t *testing.T) {
	tr := vrt.Open()
	defer tr.Close()
	rng := rand.New(rand.NewSource(vrt.Seed())) //nolint:gosec
	ops := vrt.EnvInt("VERIF_OPS", 300)
	reps := vrt.EnvInt("VERIF_REPS", 1)
	windows := []uint{0, 1, 2, 31, 32, 33, 47, 48, 50, 63, 64, 65, 100, 127, 128, 129, 191, 192, 196, 255, 256, 300, 400}
	type mx struct {
		kind string
		max  uint64
	}
	maxima := []mx{
		{"plain", 1<<16 - 1}, {"plain", 1<<48 - 1}, {"plain", 1<<64 - 1}, {"plain", 1000},
		{"wrap", 1<<16 - 1}, {"wrap", 1<<48 - 1}, {"wrap", 1<<62 - 1}, {"wrap", 1000}, {"wrap", 4095},
	}
	runs := 0
	for rep := 0; rep < reps; rep++ {
		for _, w := range windows {
			for _, m := range maxima {
				if m.max < uint64(w) || (m.kind == "wrap" && m.max+1 < 2*uint64(w)) {
					continue
				}
				driveOne(tr, rng, m.kind, w, m.max, ops)
				runs++
			}
		}
	}
	t.Logf("runs=%d events=%d", runs, tr.N)
}

func driveOne(tr *vrt.Tracer, rng *rand.Rand, kind string, w uint, maxSeq uint64, ops int) { //nolint:cyclop,gocognit
	r := newRun(tr, kind, w, maxSeq)
	wrap := kind == "wrap"
	mod := maxSeq + 1 // 0 when maxSeq = 2^64-1 (plain only)
	add := func(a, k uint64) (uint64, bool) {
		if wrap {
			return (a + k) % mod, true
		}
		if a+k < a || a+k > maxSeq {
			return a + k, a+k >= a // above max is a legal stimulus unless it overflowed uint64
		}

		return a + k, true
	}
	sub := func(a, k uint64) (uint64, bool) {
		if wrap {
			return (a + mod - k%mod) % mod, true
		}
		if k > a {
			return 0, false
		}

		return a - k, true
	}
	var cur uint64 // newest accepted according to the accept flag (heuristic)
	var accepted []uint64
	smallJumps := []uint64{1, 1, 1, 2, 3, 5, 31, 32, 33, 63, 64, 65, 127, 128, 129}
	// starting point
	switch rng.Intn(4) {
	case 0:
		cur = 0
	case 1:
		cur = uint64(rng.Int63n(int64(minU(maxSeq, 1<<40)) + 1))
	case 2:
		cur = maxSeq - minU(maxSeq, uint64(rng.Intn(3*int(w)+200)))
	default:
		cur = minU(maxSeq, uint64(rng.Intn(2*int(w)+3)))
	}
	first := true
	if wrap && maxSeq >= 64 && rng.Intn(2) == 0 {
		// accept a number, walk the head in moderate steps to about half the space ahead of it, re-check it
		s0 := cur
		r.step(s0, true)
		first = false
		accepted = append(accepted, s0)
		target := mod/2 + uint64(rng.Intn(5)) - 2
		steps := uint64(3 + rng.Intn(6))
		var walked uint64
		for i := uint64(0); i < steps; i++ {
			k := (target - walked) / (steps - i) // the last step lands exactly on the target
			if k == 0 {
				continue
			}
			walked += k
			nx, _ := add(cur, k)
			if _, inv, fl := r.step(nx, true); inv && fl {
				cur = nx
			}
		}
		r.step(s0, true)
		r.step(s0, true)
	}
	for i := 0; i < ops; i++ {
		var s uint64
		ok := true
		switch c := rng.Intn(100); {
		case first:
			s = cur
		case c < 30: // move ahead
			var k uint64
			switch rng.Intn(6) {
			case 0:
				k = smallJumps[rng.Intn(len(smallJumps))]
			case 1:
				k = uint64(w) + uint64(rng.Intn(5)) - 2
			case 2:
				k = uint64(rng.Intn(int(w)+2)) + 1
			case 3:
				k = uint64(rng.Intn(3*int(w)+70)) + 1
			case 4:
				k = 1
			default:
				k = uint64(rng.Intn(64*7)) + 1
			}
			if k == 0 || k > 1<<20 {
				k = 1
			}
			s, ok = add(cur, k)
		case c < 60: // behind, around window edge and word boundaries
			var k uint64
			switch rng.Intn(5) {
			case 0:
				k = uint64(rng.Intn(int(w) + 3))
			case 1:
				k = uint64(w) + uint64(rng.Intn(5)) - 2
			case 2:
				k = uint64(64*rng.Intn(int(w)/64+2)) + uint64(rng.Intn(5)) - 2
			case 3:
				k = uint64(rng.Intn(2*int(w) + 70))
			default:
				k = uint64(rng.Intn(40))
			}
			if k > 1<<20 {
				k = 0
			}
			s, ok = sub(cur, k)
		case c < 85 && len(accepted) > 0: // replay an accepted number
			if rng.Intn(2) == 0 {
				s = accepted[len(accepted)-1-rng.Intn(minI(len(accepted), int(w)+5))]
			} else {
				s = accepted[rng.Intn(len(accepted))]
			}
		case c < 88:
			s = 0
		case c < 91:
			s = maxSeq - minU(maxSeq, uint64(rng.Intn(3)))
		case c < 93:
			if maxSeq == 1<<64-1 {
				s = maxSeq
			} else {
				s = maxSeq + 1 + uint64(rng.Intn(3))
			}
		case c < 95 && wrap: // around the half-space boundary, ahead ...
			s, ok = add(cur, mod/2+uint64(rng.Intn(7))-3)
		case c < 97 && wrap: // ... and behind
			s, ok = sub(cur, mod/2+uint64(rng.Intn(7))-3)
		default:
			if maxSeq == 1<<64-1 {
				s = rng.Uint64()
			} else {
				s = uint64(rng.Int63n(int64(minU(maxSeq, 1<<62)))) //nolint:gosec
			}
		}
		if !ok {
			continue
		}
		acc := rng.Intn(100) < 85
		okc, inv, fl := r.step(s, acc)
		_ = okc
		if inv {
			first = false
			accepted = append(accepted, s)
			if len(accepted) > 2000 {
				accepted = accepted[1000:]
			}
			if fl {
				cur = s
			}
		}
	}
}

func minU(a, b uint64) uint64 {
	if a < b {
		return a
	}

	return b
}

func minI(a, b int) int {
	if a < b {
		return a
	}

	return b
}

// ---- histories with outstanding checks (C04 only): callbacks are kept and invoked later, in any
// order, or never

type outOp struct {
	Op string `json:"op"` // chk | acc | drop
	K  int    `json:"k"`
	N  string `json:"n"`
}

type outScenario struct {
	Cfg rdCfg   `json:"cfg"`
	Ops []outOp `json:"ops"`
}

type outRun struct {
	*rdRun
	tok   int
	slots map[int]func() bool
	toks  map[int]int
}

func newOutRun(tr *vrt.Tracer, kind string, w uint, maxSeq uint64) *outRun {
	return &outRun{rdRun: newRun(tr, kind, w, maxSeq), slots: map[int]func() bool{}, toks: map[int]int{}}
}

func (r *outRun) chk(k int, s uint64) bool {
	accept, ok := r.det.Check(s)
	r.tok++
	r.tr.Emit(vrt.M{"ev": "chk", "tok": r.tok, "s": vrt.Limbs(s), "ok": ok})
	delete(r.slots, k)
	if ok {
		r.slots[k], r.toks[k] = accept, r.tok
	}

	return ok
}

func (r *outRun) acc(k int) {
	if f := r.slots[k]; f != nil {
		fl := f()
		r.tr.Emit(vrt.M{"ev": "acc", "tok": r.toks[k], "fl": fl})
		delete(r.slots, k)
	}
}

// TestVerifReplayOutTours replays the transition tours of MC_ReplayOut.
func TestVerifReplayOutTours(t *testing.T) {
	tr := vrt.Open()
	defer tr.Close()
	n := 0
	vrt.ReadScenarios(func(line []byte) {
		var sc outScenario
		if err := json.Unmarshal(line, &sc); err != nil {
			t.Fatal(err)
		}
		mx, _ := strconv.ParseUint(sc.Cfg.Max, 10, 64)
		r := newOutRun(tr, sc.Cfg.Kind, sc.Cfg.W, mx)
		for _, op := range sc.Ops {
			switch op.Op {
			case "chk":
				s, _ := strconv.ParseUint(op.N, 10, 64)
				r.chk(op.K, s)
			case "acc":
				r.acc(op.K)
			default:
				delete(r.slots, op.K)
			}
		}
		n++
	})
	t.Logf("tours=%d events=%d", n, tr.N)
}

// TestVerifReplayOutDriver: real-scale histories with up to four outstanding callbacks.
func TestVerifReplayOutDriver(t *testing.T) { //nolint:cyclop
	tr := vrt.Open()
	defer tr.Close()
	rng := rand.New(rand.NewSource(vrt.Seed())) //nolint:gosec
	ops := vrt.EnvInt("VERIF_OPS", 200)
	windows := []uint{0, 1, 2, 33, 48, 64, 65, 100, 128, 200}
	type mx struct {
		kind string
		max  uint64
	}
	maxima := []mx{
		{"plain", 1<<16 - 1}, {"plain", 1<<64 - 1}, {"plain", 1000},
		{"wrap", 1<<16 - 1}, {"wrap", 1<<48 - 1}, {"wrap", 1000}, {"wrap", 4095},
	}
	runs := 0
	for _, w := range windows {
		for _, m := range maxima {
			if m.max < uint64(w) || (m.kind == "wrap" && m.max+1 < 2*uint64(w)) {
				continue
			}
			r := newOutRun(tr, m.kind, w, m.max)
			mod := m.max + 1
			cur := uint64(rng.Intn(2*int(w) + 50))
			if rng.Intn(3) == 0 {
				cur = m.max - uint64(rng.Intn(int(w)+20))
			}
			var recent []uint64
			for i := 0; i < ops; i++ {
				switch c := rng.Intn(100); {
				case c < 55:
					var s uint64
					switch rng.Intn(5) {
					case 0, 1: // a little ahead of the numbers seen so far
						s = cur + uint64(rng.Intn(4)) + 1
					case 2: // inside or just behind the window
						s = cur - uint64(rng.Intn(int(w)+3))
					case 3: // a number used recently (replay)
						if len(recent) > 0 {
							s = recent[rng.Intn(len(recent))]
						} else {
							s = cur
						}
					default:
						s = cur + uint64(rng.Intn(3*int(w)+70))
					}
					if m.kind == "wrap" {
						s %= mod
					}
					if r.chk(rng.Intn(4), s) {
						recent = append(recent, s)
						if len(recent) > 12 {
							recent = recent[1:]
						}
						if m.kind == "wrap" || s > cur {
							cur = s
						}
					}
				case c < 92:
					r.acc(rng.Intn(4))
				default:
					delete(r.slots, rng.Intn(4))
				}
			}
			runs++
		}
	}
	t.Logf("runs=%d events=%d", runs, tr.N)
}
