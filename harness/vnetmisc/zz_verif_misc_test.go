//go:build verif

package vnet

import (
	"fmt"
	"math/rand"
	"net"
	"testing"
	"testing/synctest"
	"time"

	"github.com/pion/logging"
	"github.com/pion/transport/v3/internal/vrt"
)

// TestVerifMisc exercises behaviour no listed property asks for (spec growth): the chunk
// queue, the router start/stop life cycle and the resolver. Rejections are reported as notes.
func TestVerifMisc(t *testing.T) { //nolint:cyclop,gocognit
	tr := vrt.Open()
	defer tr.Close()
	rng := rand.New(rand.NewSource(vrt.Seed())) //nolint:gosec
	runs := vrt.EnvInt("VERIF_RUNS", 20)
	// ---- chunk queue
	for k := 0; k < runs; k++ {
		ms := []int{0, 1, 3, 10}[rng.Intn(4)]
		mb := []int{0, 1, 50, 400}[rng.Intn(4)]
		q := newChunkQueue(ms, mb)
		tr.Emit(vrt.M{"ev": "reset", "kind": "queue", "maxsize": ms, "maxbytes": mb})
		ids := map[Chunk]int{}
		next := 0
		for i := 0; i < 80; i++ {
			switch rng.Intn(5) {
			case 0, 1, 2:
				next++
				c := newChunkUDP(&net.UDPAddr{IP: net.IPv4(1, 1, 1, 1), Port: 1}, &net.UDPAddr{IP: net.IPv4(2, 2, 2, 2), Port: 2})
				c.userData = make([]byte, []int{0, 1, 10, 49, 50, 51, 200}[rng.Intn(7)])
				ids[c] = next
				tr.Emit(vrt.M{"ev": "push", "id": next, "len": len(c.userData), "ok": q.push(c)})
			case 3:
				c, ok := q.pop()
				tr.Emit(vrt.M{"ev": "pop", "ok": ok, "id": ids[c]})
			default:
				tr.Emit(vrt.M{"ev": "peek", "id": ids[q.peek()]})
			}
		}
	}
	// ---- router life cycle on a chain root(1) > 2 > 3, two hosts per router
	for k := 0; k < runs; k++ {
		synctest.Test(t, func(*testing.T) {
			lf := logging.NewDefaultLoggerFactory()
			rs := map[int]*Router{}
			type pair struct{ a, b net.PacketConn }
			hosts := map[int]pair{}
			for i := 1; i <= 3; i++ {
				cfg := &RouterConfig{CIDR: fmt.Sprintf("10.%d.0.0/24", i), LoggerFactory: lf}
				if i > 1 {
					cfg.StaticIPs = []string{fmt.Sprintf("10.%d.0.200", i-1)}
				}
				r, err := NewRouter(cfg)
				if err != nil {
					t.Fatal(err)
				}
				rs[i] = r
				if i > 1 {
					if err := rs[i-1].AddRouter(r); err != nil {
						t.Fatal(err)
					}
				}
				n1, _ := NewNet(&NetConfig{StaticIPs: []string{fmt.Sprintf("10.%d.0.2", i)}})
				n2, _ := NewNet(&NetConfig{StaticIPs: []string{fmt.Sprintf("10.%d.0.3", i)}})
				_ = r.AddNet(n1)
				_ = r.AddNet(n2)
				a, _ := n1.ListenPacket("udp4", fmt.Sprintf("10.%d.0.2:100", i))
				b, _ := n2.ListenPacket("udp4", fmt.Sprintf("10.%d.0.3:100", i))
				hosts[i] = pair{a, b}
			}
			tr.Emit(vrt.M{"ev": "reset", "kind": "life", "maxsize": 0, "maxbytes": 0})
			id := 0
			for i := 0; i < 25; i++ {
				r := 1 + rng.Intn(3)
				switch rng.Intn(4) {
				case 0:
					tr.Emit(vrt.M{"ev": "start", "r": r, "err": rs[r].Start() != nil})
				case 1:
					tr.Emit(vrt.M{"ev": "stop", "r": r, "err": rs[r].Stop() != nil})
				default:
					id++
					_, _ = hosts[r].a.WriteTo([]byte{byte(id)}, hosts[r].b.LocalAddr())
					synctest.Wait()
					_ = hosts[r].b.SetReadDeadline(time.Now().Add(time.Millisecond))
					buf := make([]byte, 8)
					n, _, err := hosts[r].b.ReadFrom(buf)
					arrived := err == nil && n == 1 && buf[0] == byte(id)
					_ = hosts[r].b.SetReadDeadline(time.Time{})
					tr.Emit(vrt.M{"ev": "send", "r": r, "id": id, "arrived": arrived})
				}
			}
			// clean-up: a parent cannot be stopped while a child is stopped, so start everything first
			for i := 3; i >= 1; i-- {
				_ = rs[i].Start()
			}
			_ = rs[1].Stop()
			for i := 1; i <= 3; i++ {
				_ = hosts[i].a.Close()
				_ = hosts[i].b.Close()
			}
		})
	}
	// ---- resolver over the same chain
	for k := 0; k < runs; k++ {
		lf := logging.NewDefaultLoggerFactory()
		rs := map[int]*Router{}
		nets := map[int]*Net{}
		for i := 1; i <= 3; i++ {
			cfg := &RouterConfig{CIDR: fmt.Sprintf("10.%d.0.0/24", i), LoggerFactory: lf}
			if i > 1 {
				cfg.StaticIPs = []string{fmt.Sprintf("10.%d.0.200", i-1)}
			}
			r, _ := NewRouter(cfg)
			rs[i] = r
			if i > 1 {
				_ = rs[i-1].AddRouter(r)
			}
			nw, _ := NewNet(&NetConfig{})
			_ = r.AddNet(nw)
			nets[i] = nw
		}
		tr.Emit(vrt.M{"ev": "reset", "kind": "resolver", "maxsize": 0, "maxbytes": 0})
		for i := 0; i < 30; i++ {
			r := 1 + rng.Intn(3)
			name := []string{"a", "b", "localhost"}[rng.Intn(3)]
			if rng.Intn(2) == 0 && name != "localhost" {
				ip := 1 + rng.Intn(200)
				if err := rs[r].AddHost(name, fmt.Sprintf("30.0.0.%d", ip)); err == nil {
					tr.Emit(vrt.M{"ev": "addhost", "r": r, "name": name, "ip": ip})
				}
			} else {
				got := 0
				if a, err := nets[r].ResolveUDPAddr("udp4", name+":80"); err == nil {
					v := a.IP.To4()
					if v[0] == 127 {
						got = 127001
					} else {
						got = int(v[3])
					}
				}
				tr.Emit(vrt.M{"ev": "lookup", "r": r, "name": name, "ip": got})
			}
		}
	}
	t.Logf("events=%d", tr.N)
}
