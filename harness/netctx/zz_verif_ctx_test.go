//go:build verif

// Package verifctx_test drives the context-aware wrappers (C17) over a harness-owned
// connection whose deadline registers and transfers are observable.
package verifctx_test

import (
	"bytes"
	"context"
	"encoding/json"
	"errors"
	"math/rand"
	"net"
	"os"
	"runtime"
	"sync"
	"testing"
	"testing/synctest"
	"time"

	"github.com/pion/transport/v3/connctx"
	"github.com/pion/transport/v3/internal/vrt"
	"github.com/pion/transport/v3/netctx"
)

type timeoutErr struct{}

func (timeoutErr) Error() string   { return "fake: i/o timeout" }
func (timeoutErr) Timeout() bool   { return true }
func (timeoutErr) Temporary() bool { return true }

// fakeConn: Read waits for a fed chunk, Write for a fed token; both honour their deadline.
type fakeConn struct {
	mu         sync.Mutex
	rdl, wdl   time.Time
	rsig, wsig chan struct{}
	rdata      chan []byte
	wroom      chan struct{}
	emit       func(vrt.M)
}

func newFake(emit func(vrt.M)) *fakeConn {
	return &fakeConn{
		rsig: make(chan struct{}), wsig: make(chan struct{}),
		rdata: make(chan []byte, 16), wroom: make(chan struct{}, 16), emit: emit,
	}
}

func (f *fakeConn) read(b []byte) (int, error) {
	for {
		f.mu.Lock()
		dl, sig := f.rdl, f.rsig
		f.mu.Unlock()
		if !dl.IsZero() && !time.Now().Before(dl) {
			return 0, timeoutErr{}
		}
		select {
		case d := <-f.rdata:
			n := copy(b, d)
			f.emit(vrt.M{"ev": "xfer", "n": n})

			return n, nil
		case <-sig:
		}
	}
}

func (f *fakeConn) write(b []byte) (int, error) {
	for {
		f.mu.Lock()
		dl, sig := f.wdl, f.wsig
		f.mu.Unlock()
		if !dl.IsZero() && !time.Now().Before(dl) {
			return 0, timeoutErr{}
		}
		select {
		case <-f.wroom:
			f.emit(vrt.M{"ev": "xfer", "n": len(b)})

			return len(b), nil
		case <-sig:
		}
	}
}

func (f *fakeConn) Read(b []byte) (int, error)  { return f.read(b) }
func (f *fakeConn) Write(b []byte) (int, error) { return f.write(b) }
func (f *fakeConn) ReadFrom(b []byte) (int, net.Addr, error) {
	n, err := f.read(b)

	return n, &net.UDPAddr{IP: net.IPv4(10, 0, 0, 9), Port: 9}, err
}
func (f *fakeConn) WriteTo(b []byte, _ net.Addr) (int, error) { return f.write(b) }
func (f *fakeConn) Close() error                              { return nil }
func (f *fakeConn) LocalAddr() net.Addr                       { return &net.UDPAddr{} }
func (f *fakeConn) RemoteAddr() net.Addr                      { return &net.UDPAddr{} }
func (f *fakeConn) SetDeadline(t time.Time) error {
	_ = f.SetReadDeadline(t)

	return f.SetWriteDeadline(t)
}

func (f *fakeConn) SetReadDeadline(t time.Time) error {
	f.mu.Lock()
	f.rdl = t
	close(f.rsig)
	f.rsig = make(chan struct{})
	f.mu.Unlock()

	return nil
}

func (f *fakeConn) SetWriteDeadline(t time.Time) error {
	f.mu.Lock()
	f.wdl = t
	close(f.wsig)
	f.wsig = make(chan struct{})
	f.mu.Unlock()

	return nil
}

func (f *fakeConn) reg(dir string) string {
	f.mu.Lock()
	defer f.mu.Unlock()
	t := f.rdl
	if dir == "w" {
		t = f.wdl
	}
	if t.IsZero() {
		return "zero"
	}

	return "old"
}

type ctxScenario struct {
	Kind     string `json:"kind"`     // conn | connctx | pconn
	Dir      string `json:"dir"`      // r | w
	Ops      int    `json:"ops"`      // operations by the client: first under c1, the rest under live contexts
	Feeds    int    `json:"feeds"`    // how many units the environment may feed
	Deadline bool   `json:"deadline"` // the first context also has a far deadline
	Par      bool   `json:"par"`      // the operations are issued by different goroutines at the same time
}

func errClass(err error) string {
	var ne net.Error
	switch {
	case err == nil:
		return "nil"
	case errors.Is(err, context.Canceled), errors.Is(err, context.DeadlineExceeded):
		return "ctx"
	case errors.As(err, &ne) && ne.Timeout():
		return "timeout"
	default:
		return "other"
	}
}

func watcherGoroutines() int {
	buf := make([]byte, 1<<20)
	n := runtime.Stack(buf, true)
	c := 0
	for _, g := range bytes.Split(buf[:n], []byte("\n\n")) {
		if bytes.Contains(g, []byte("Context.func")) && (bytes.Contains(g, []byte("/netctx.")) || bytes.Contains(g, []byte("/connctx."))) {
			c++
		}
	}

	return c
}

func execCtx(t *testing.T, tr *vrt.Tracer, sc ctxScenario, ex *vrt.Explorer) {
	t.Helper()
	stopWD := vrt.Watchdog(120*time.Second, func() {
		tr.Close()
		panic("verif: the run does not come to rest: a goroutine waits for a lock whose holder is blocked (recorded up to the last rest point)")
	})
	defer stopWD()
	synctest.Test(t, func(*testing.T) {
		var mu sync.Mutex
		over := false
		emit := func(m vrt.M) {
			mu.Lock()
			if !over {
				tr.Emit(m)
			}
			mu.Unlock()
		}
		f := newFake(emit)
		var rd func(context.Context, []byte) (int, error)
		var wr func(context.Context, []byte) (int, error)
		switch sc.Kind {
		case "conn":
			c := netctx.NewConn(f)
			rd, wr = c.ReadContext, c.WriteContext
		case "connctx":
			c := connctx.New(f)
			rd, wr = c.ReadContext, c.WriteContext
		default:
			c := netctx.NewPacketConn(f)
			rd = func(ctx context.Context, b []byte) (int, error) {
				n, _, err := c.ReadFromContext(ctx, b)
				return n, err
			}
			wr = func(ctx context.Context, b []byte) (int, error) { return c.WriteToContext(ctx, b, &net.UDPAddr{}) }
		}
		s := vrt.NewSched(synctest.Wait)
		vrt.Install(s)
		tr.Emit(vrt.M{"ev": "reset", "kind": sc.Kind, "dir": sc.Dir})
		c1, cancel1 := context.WithCancel(context.Background())
		defer cancel1()
		if sc.Deadline { // a context that also carries a far deadline must still observe its cancellation
			var cf context.CancelFunc
			c1, cf = context.WithTimeout(c1, time.Hour)
			defer cf()
		}
		inflight := map[int]bool{}
		var wg sync.WaitGroup
		one := func(p int) bool {
			vrt.Yield("client")
			ctx, name := context.Background(), "live"
			if p == 0 {
				ctx, name = c1, "c1"
			}
			mu.Lock()
			stop := over
			inflight[p] = true
			mu.Unlock()
			if stop {
				return false
			}
			emit(vrt.M{"ev": "call", "p": p, "ctx": name})
			var n int
			var err error
			if sc.Dir == "r" {
				n, err = rd(ctx, make([]byte, 32))
			} else {
				n, err = wr(ctx, []byte("0123456789"))
			}
			mu.Lock()
			delete(inflight, p)
			mu.Unlock()
			emit(vrt.M{"ev": "ret", "p": p, "n": n, "err": errClass(err), "reg": f.reg(sc.Dir)})

			return true
		}
		if sc.Par { // every operation from its own goroutine: callers sharing one wrapper
			for p := 0; p < sc.Ops; p++ {
				wg.Add(1)
				go func(p int) {
					defer wg.Done()
					one(p)
				}(p)
			}
		} else {
			wg.Add(1)
			go func() {
				defer wg.Done()
				for p := 0; p < sc.Ops; p++ {
					if !one(p) {
						return
					}
				}
			}()
		}
		cancelLeft, feeds := true, sc.Feeds
		for steps := 0; steps < 5000; steps++ {
			parked := s.Parked()
			n := len(parked)
			opts := n
			if cancelLeft {
				opts++
			}
			if feeds > 0 {
				opts++
			}
			if opts == 0 {
				break
			}
			k := ex.Choose(opts)
			switch {
			case k < n:
				s.Release(parked[k])
			case cancelLeft && k == n:
				cancelLeft = false
				emit(vrt.M{"ev": "cancel", "ctx": "c1"})
				cancel1()
			default:
				feeds--
				emit(vrt.M{"ev": "feed"})
				if sc.Dir == "r" {
					f.rdata <- []byte("abcdefgh")
				} else {
					f.wroom <- struct{}{}
				}
			}
		}
		synctest.Wait()
		mu.Lock()
		pending := []int{}
		for p := range inflight {
			pending = append(pending, p)
		}
		tr.Emit(vrt.M{"ev": "quiesce", "pending": pending, "reg": f.reg(sc.Dir), "leaked": watcherGoroutines() - len(pending), "sched": ex.Trail(), "fine": vrt.IsFine()})
		over = true
		mu.Unlock()
		vrt.Uninstall()
		// clean-up: unblock whatever is still waiting
		for i := 0; i < 8; i++ {
			f.rdata <- []byte("x")
			f.wroom <- struct{}{}
		}
		wg.Wait()
	})
}

// TestVerifCtxSync enumerates where the cancellation (and the data) falls relative to
// every synchronisation step of the wrapper.
func TestVerifCtxSync(t *testing.T) {
	tr := vrt.Open()
	defer tr.Close()
	budget := vrt.EnvInt("VERIF_BUDGET", 600)
	nrand := vrt.EnvInt("VERIF_RANDOM", 200)
	nfine := vrt.EnvInt("VERIF_FINE", nrand/2)
	rng := rand.New(rand.NewSource(vrt.Seed())) //nolint:gosec
	stats := map[string][3]int{}
	vrt.ReadScenarios(func(line []byte) {
		var sc ctxScenario
		if err := json.Unmarshal(line, &sc); err != nil {
			t.Fatal(err)
		}
		ex := &vrt.Explorer{}
		exhausted := false
		for ex.Runs < budget {
			ex.Begin()
			execCtx(t, tr, sc, ex)
			if !ex.Next() {
				exhausted = true

				break
			}
		}
		nr := 0
		if !exhausted {
			rex := &vrt.Explorer{Random: true, Rng: rng}
			for ; nr < nrand; nr++ {
				rex.Begin()
				execCtx(t, tr, sc, rex)
			}
		}
		vrt.SetFine(true)
		fex := &vrt.Explorer{Random: true, Rng: rng}
		for k := 0; k < nfine; k++ {
			fex.Begin()
			execCtx(t, tr, sc, fex)
			nr++
		}
		vrt.SetFine(false)
		e := 0
		if exhausted {
			e = 1
		}
		b, _ := json.Marshal(sc)
		stats[string(b)] = [3]int{ex.Runs, nr, e}
	})
	b, _ := json.Marshal(stats)
	t.Logf("events=%d", tr.N)
	if p := os.Getenv("VERIF_STATS"); p != "" {
		_ = os.WriteFile(p, b, 0o644)
	}
}

func streamByte(i int) byte { return byte((i*131)>>3 ^ i) }

// TestVerifCtxStream: byte conservation over net.Pipe with seeded cancellations on both ends.
func TestVerifCtxStream(t *testing.T) { //nolint:cyclop,gocognit
	tr := vrt.Open()
	defer tr.Close()
	rng := rand.New(rand.NewSource(vrt.Seed())) //nolint:gosec
	runs := vrt.EnvInt("VERIF_RUNS", 30)
	total := vrt.EnvInt("VERIF_BYTES", 1500)
	for k := 0; k < runs; k++ {
		kind := []string{"conn", "connctx"}[k%2]
		wseed, rseed := rng.Int63(), rng.Int63()
		synctest.Test(t, func(*testing.T) {
			a, b := net.Pipe()
			var wr func(context.Context, []byte) (int, error)
			var rd func(context.Context, []byte) (int, error)
			if kind == "conn" {
				wr, rd = netctx.NewConn(a).WriteContext, netctx.NewConn(b).ReadContext
			} else {
				wr, rd = connctx.New(a).WriteContext, connctx.New(b).ReadContext
			}
			var mu sync.Mutex
			tr.Emit(vrt.M{"ev": "reset", "kind": kind, "stream": true})
			emit := func(m vrt.M) { mu.Lock(); tr.Emit(m); mu.Unlock() }
			mkctx := func(r *rand.Rand) (context.Context, context.CancelFunc) {
				switch r.Intn(4) {
				case 0:
					return context.WithCancel(context.Background())
				case 1:
					c, cf := context.WithCancel(context.Background())
					cf()

					return c, cf
				default:
					return context.WithTimeout(context.Background(), time.Duration(r.Intn(3000))*time.Microsecond)
				}
			}
			var wg sync.WaitGroup
			wg.Add(2)
			go func() { // writer
				defer wg.Done()
				defer a.Close()                      //nolint:errcheck
				r := rand.New(rand.NewSource(wseed)) //nolint:gosec
				pos := 0
				for iter := 0; pos < total && iter < 20*total; iter++ {
					n := 1 + r.Intn(64)
					if pos+n > total {
						n = total - pos
					}
					chunk := make([]byte, n)
					for i := range chunk {
						chunk[i] = streamByte(pos + i)
					}
					ctx, cf := mkctx(r)
					m, _ := wr(ctx, chunk)
					cf()
					emit(vrt.M{"ev": "w", "n": m})
					pos += m
					if r.Intn(3) == 0 {
						time.Sleep(time.Duration(r.Intn(2000)) * time.Microsecond)
					}
				}
			}()
			go func() { // reader
				defer wg.Done()
				defer b.Close()                      //nolint:errcheck
				r := rand.New(rand.NewSource(rseed)) //nolint:gosec
				pos := 0
				for iter := 0; pos < total && iter < 40*total; iter++ {
					buf := make([]byte, 1+r.Intn(16))
					ctx, cf := mkctx(r)
					if r.Intn(3) == 0 {
						cf()
						ctx, cf = context.WithTimeout(context.Background(), 50*time.Millisecond)
					}
					n, _ := rd(ctx, buf)
					cf()
					ok := n >= 0 && n <= len(buf)
					for i := 0; ok && i < n; i++ {
						ok = buf[i] == streamByte(pos+i)
					}
					emit(vrt.M{"ev": "r", "n": n, "intact": ok})
					if !ok {
						return
					}
					pos += n
				}
			}()
			wg.Wait()
			tr.Emit(vrt.M{"ev": "rest"})
			_ = a.Close()
			_ = b.Close()
		})
	}
	t.Logf("events=%d", tr.N)
}
