//go:build verif

package udp

import (
	"encoding/json"
	"net"
	"testing"
	"time"

	"github.com/pion/transport/v3/internal/vrt"
)

// TestVerifUDPReal runs sequential histories over real loopback sockets, with and without
// batch reads. Loopback is treated as reliable for these few small datagrams; every blocking
// call gets 3 s before it is reported as still blocked.
func TestVerifUDPReal(t *testing.T) { //nolint:cyclop,gocognit
	tr := vrt.Open()
	defer tr.Close()
	k := 0
	vrt.ReadScenarios(func(line []byte) {
		var sc udpScenario
		if err := json.Unmarshal(line, &sc); err != nil {
			t.Fatal(err)
		}
		if len(sc.Clients) != 1 {
			return
		}
		for v := 0; v < 3; v++ {
			// v == 2: batch mode with an undeliverable datagram left in the write batch when everything is closed
			runReal(t, tr, sc, v > 0, v == 2)
			k++
		}
	})
	t.Logf("histories=%d events=%d", k, tr.N)
}

func runReal(t *testing.T, tr *vrt.Tracer, sc udpScenario, batch, poison bool) { //nolint:cyclop,gocognit
	t.Helper()
	{
		lc := ListenConfig{Backlog: 2, AcceptFilter: func(b []byte) bool { return len(b) > 4 && b[4] == 1 }}
		if batch {
			// the filter dawdles so that the datagrams sent behind one from a new remote wait in the socket
			// and come out of one ReadBatch together
			lc.AcceptFilter = func(b []byte) bool {
				time.Sleep(2 * time.Millisecond)

				return len(b) > 4 && b[4] == 1
			}
			lc.Batch = BatchIOConfig{Enable: true, ReadBatchSize: 4, WriteBatchSize: 2, WriteBatchInterval: 2 * time.Millisecond}
		}
		ln, err := lc.Listen("udp", &net.UDPAddr{IP: net.IPv4(127, 0, 0, 1), Port: 0})
		if err != nil {
			t.Fatal(err)
		}
		laddr := ln.Addr().(*net.UDPAddr) //nolint:forcetypeassert
		remotes := map[int]*net.UDPConn{}
		remoteOf := map[string]int{}
		tr.Emit(vrt.M{"ev": "reset", "scenario": sc.Name + "/real", "batch": lc.Batch.Enable})
		handles := map[int]net.Conn{}
		nacc, nextMsg := 0, 0
		blocked := []int{}
		stuck := false
		unsettled := false
		within := func(f func()) bool {
			done := make(chan struct{})
			go func() { defer close(done); f() }()
			select {
			case <-done:
				return true
			case <-time.After(3 * time.Second):
				return false
			}
		}
		for oi, op := range sc.Clients[0] {
			if stuck {
				break
			}
			if op.Op == "send" {
				rs := remotes[op.R]
				if rs == nil {
					rs, err = net.DialUDP("udp", nil, laddr)
					if err != nil {
						t.Fatal(err)
					}
					remotes[op.R] = rs
					remoteOf[rs.LocalAddr().String()] = op.R
				}
				nextMsg++
				tr.Emit(vrt.M{"ev": "send", "r": op.R, "m": nextMsg, "admit": op.Admit})
				_, _ = rs.Write(dgram(nextMsg, op.R, op.Admit))
				if batch {
					unsettled = true // back to back: settled before the next call
				} else {
					time.Sleep(3 * time.Millisecond) // let the read loop dispatch it
				}

				continue
			}
			if unsettled {
				time.Sleep(25 * time.Millisecond)
				unsettled = false
			}
			var conn net.Conn
			if op.Op == "cclose" || op.Op == "write" || op.Op == "read" {
				if conn = handles[op.H]; conn == nil {
					continue
				}
			}
			hid := op.H + 1
			if op.Op == "accept" {
				hid = nacc + 1
			}
			tr.Emit(vrt.M{"ev": "call", "p": oi, "op": op.Op, "h": hid})
			r := vrt.M{"ev": "ret", "p": oi, "res": "ok", "remote": 0, "h": hid}
			ok := within(func() {
				switch op.Op {
				case "accept":
					c, err := ln.Accept()
					if err != nil {
						r["res"] = "closed"
					} else {
						handles[nacc] = c
						r["remote"] = remoteOf[c.RemoteAddr().String()]
					}
				case "lclose":
					_ = ln.Close()
				case "cclose":
					_ = conn.Close()
				case "write":
					if _, err := conn.Write([]byte("pong")); err != nil {
						r["res"] = "fail"
					}
				case "read":
					buf := make([]byte, 9000)
					n, err := conn.Read(buf)
					if err != nil {
						r["res"] = "eof"
					} else {
						id, from, good := dgramID(buf[:n])
						r["res"], r["remote"] = "data", id
						if !good || from != remoteOf[conn.RemoteAddr().String()] {
							r["res"] = "corrupt-or-foreign"
						}
					}
				}
			})
			if op.Op == "accept" {
				nacc++
			}
			if !ok {
				blocked = append(blocked, oi)
				stuck = true

				continue
			}
			tr.Emit(r)
		}
		time.Sleep(25 * time.Millisecond)
		// is the port still bound?
		sockOpen := true
		if probe, err := net.ListenUDP("udp", laddr); err == nil {
			sockOpen = false
			_ = probe.Close()
		}
		tr.Emit(vrt.M{"ev": "quiesce", "blocked": blocked, "sock": sockOpen, "leaked": 0, "sched": []int{}})
		if poison { // queued and too large to be sent: the flush when the last reference goes fails
			for _, c := range handles {
				_, _ = c.Write(make([]byte, 70000))

				break
			}
		}
		cleaned := within(func() {
			_ = ln.Close()
			for _, c := range handles {
				_ = c.Close()
			}
		})
		for _, rs := range remotes {
			_ = rs.Close()
		}
		if !cleaned {
			// closing everything does not return: recorded as a Close call that stays blocked
			tr.Emit(vrt.M{"ev": "reset", "scenario": sc.Name + "/real/after-cleanup", "batch": lc.Batch.Enable})
			tr.Emit(vrt.M{"ev": "call", "p": 1, "op": "lclose", "h": 0})
			tr.Emit(vrt.M{"ev": "quiesce", "blocked": []int{1}, "sock": true, "leaked": 1, "sched": []int{}})
			tr.Close()
			panic("verif: a Close call of the listener or of a connection does not return (recorded)")
		}
	}
}
