//go:build verif

package udp

import (
	"bytes"
	"encoding/json"
	"math/rand"
	"net"
	"os"
	"runtime"
	"sync"
	"testing"
	"testing/synctest"
	"time"

	"github.com/pion/transport/v3/internal/vrt"
)

type udpOp struct {
	Op    string `json:"op"` // send, accept, lclose, cclose, write, read
	R     int    `json:"r"`
	Admit bool   `json:"admit"`
	H     int    `json:"h"` // client-local handle index (k-th accept of this client)
}

type udpScenario struct {
	Name    string    `json:"name"`
	Clients [][]udpOp `json:"clients"`
}

// dgramLen: datagram sizes from the smallest the accept filter can judge up to the receive MTU (8192),
// among them sizes that fill a connection's ring buffer exactly (2046 + 2 = 2048, 4094 + 2 = 4096).
func dgramLen(id int) int {
	return []int{16, 8192, 17, 2046, 8191, 1472, 4094}[id%7]
}

func dgram(id, r int, admit bool) []byte {
	p := make([]byte, dgramLen(id))
	p[0], p[1], p[2], p[3] = byte(id), byte(id>>8), byte(id>>16), byte(id>>24)
	if admit {
		p[4] = 1
	}
	p[5] = byte(r)
	for i := 6; i < len(p); i++ {
		p[i] = byte(id*17 + i)
	}

	return p
}

func dgramID(p []byte) (id, r int, ok bool) {
	if len(p) < 16 {
		return -1, -1, false
	}
	id = int(p[0]) | int(p[1])<<8 | int(p[2])<<16 | int(p[3])<<24
	if id < 0 || len(p) != dgramLen(id) {
		return id, int(p[5]), false
	}
	for i := 6; i < len(p); i++ {
		if p[i] != byte(id*17+i) {
			return id, int(p[5]), false
		}
	}

	return id, int(p[5]), true
}

// pkgGoroutines counts the listener's own goroutines (read loop and socket closer).
func pkgGoroutines() int {
	buf := make([]byte, 1<<20)
	n := runtime.Stack(buf, true)
	c := 0
	for _, g := range bytes.Split(buf[:n], []byte("\n\n")) {
		if bytes.Contains(g, []byte("udp.(*listener).readLoop")) || bytes.Contains(g, []byte("udp.(*ListenConfig).Listen.func")) {
			c++
		}
	}

	return c
}

func execUDP(t *testing.T, tr *vrt.Tracer, sc udpScenario, ex *vrt.Explorer) {
	t.Helper()
	stopWD := vrt.Watchdog(120*time.Second, func() {
		tr.Close()
		panic("verif: the run does not come to rest: a goroutine waits for a lock whose holder is blocked (recorded up to the last rest point)")
	})
	defer stopWD()
	synctest.Test(t, func(t *testing.T) {
		vrt.ResetFakeNet()
		lc := ListenConfig{Backlog: 2, AcceptFilter: func(b []byte) bool { return len(b) > 4 && b[4] == 1 }}
		ln, err := lc.Listen("udp", &net.UDPAddr{IP: net.IPv4(127, 0, 0, 1), Port: 0})
		if err != nil {
			t.Fatal(err)
		}
		lport := ln.Addr().(*net.UDPAddr).Port //nolint:forcetypeassert
		remotes := map[int]*vrt.FakeUDPConn{}
		remoteOf := map[string]int{}
		for _, ops := range sc.Clients {
			for _, op := range ops {
				if op.Op == "send" && remotes[op.R] == nil {
					rs, _ := vrt.ListenUDP("udp", &net.UDPAddr{Port: 30000 + op.R})
					remotes[op.R] = rs
					remoteOf[rs.LocalAddr().String()] = op.R
				}
			}
		}
		s := vrt.NewSched(synctest.Wait)
		vrt.Install(s)
		var mu sync.Mutex
		emit := func(m vrt.M) { tr.Emit(m) }
		tr.Emit(vrt.M{"ev": "reset", "scenario": sc.Name})
		inflight := map[int]bool{}
		over := false
		nextMsg := 0
		var allConns []net.Conn
		var wg sync.WaitGroup
		for ci, ops := range sc.Clients {
			wg.Add(1)
			go func(ci int, ops []udpOp) {
				defer wg.Done()
				handles := map[int]net.Conn{}
				nacc := 0
				for oi, op := range ops {
					pid := ci*100 + oi
					vrt.Yield("client")
					if op.Op == "send" {
						mu.Lock()
						if over {
							mu.Unlock()

							return
						}
						nextMsg++
						id := nextMsg
						emit(vrt.M{"ev": "send", "r": op.R, "m": id, "admit": op.Admit})
						_, _ = remotes[op.R].WriteTo(dgram(id, op.R, op.Admit), &net.UDPAddr{IP: net.IPv4(127, 0, 0, 1), Port: lport})
						mu.Unlock()

						continue
					}
					var conn net.Conn
					if op.Op == "cclose" || op.Op == "write" || op.Op == "read" {
						conn = handles[op.H]
						if conn == nil {
							continue // the accept this refers to failed
						}
					}
					hid := ci*100 + op.H + 1
					if op.Op == "accept" {
						hid = ci*100 + nacc + 1
					}
					mu.Lock()
					if over {
						mu.Unlock()

						return
					}
					inflight[pid] = true
					emit(vrt.M{"ev": "call", "p": pid, "op": op.Op, "h": hid})
					mu.Unlock()
					r := vrt.M{"ev": "ret", "p": pid, "res": "ok", "remote": 0, "h": hid}
					switch op.Op {
					case "accept":
						c, err := ln.Accept()
						if err != nil {
							r["res"] = "closed"
						} else {
							handles[nacc] = c
							mu.Lock()
							allConns = append(allConns, c)
							mu.Unlock()
							r["remote"] = remoteOf[c.RemoteAddr().String()]
						}
						nacc++
					case "lclose":
						_ = ln.Close()
					case "cclose":
						_ = conn.Close()
					case "write":
						if _, err := conn.Write([]byte("pong")); err != nil {
							r["res"] = "fail"
						}
					case "read":
						buf := make([]byte, 9000)
						n, err := conn.Read(buf)
						switch {
						case err != nil:
							r["res"] = "eof"
						default:
							id, from, ok := dgramID(buf[:n])
							r["res"] = "data"
							r["remote"] = id
							if !ok || from != remoteOf[conn.RemoteAddr().String()] {
								r["res"] = "corrupt-or-foreign"
							}
						}
					}
					mu.Lock()
					delete(inflight, pid)
					stop := over
					if !over {
						emit(r)
					}
					mu.Unlock()
					if stop {
						return
					}
				}
			}(ci, ops)
		}
		for steps := 0; steps < 20000; steps++ {
			parked := s.Parked()
			if len(parked) == 0 {
				break
			}
			s.Release(parked[ex.Choose(len(parked))])
		}
		synctest.Wait()
		mu.Lock()
		blocked := []int{}
		for p := range inflight {
			blocked = append(blocked, p)
		}
		emit(vrt.M{
			"ev": "quiesce", "blocked": blocked, "sock": vrt.FakePortBound(lport), "leaked": pkgGoroutines(),
			"sched": ex.Trail(), "fine": vrt.IsFine(),
		})
		over = true
		conns := append([]net.Conn(nil), allConns...)
		mu.Unlock()
		// clean-up, not part of the history
		vrt.Uninstall()
		cleaned := make(chan struct{})
		go func() {
			_ = ln.Close()
			for _, c := range conns {
				_ = c.Close()
			}
			close(cleaned)
		}()
		synctest.Wait()
		hung := false
		select {
		case <-cleaned:
			for _, rs := range remotes {
				_ = rs.Close()
			}
			ended := make(chan struct{})
			go func() { wg.Wait(); close(ended) }()
			synctest.Wait()
			select {
			case <-ended:
			default:
				hung = true // a call is still blocked although the listener and every connection were closed
			}
		default:
			hung = true // a Close call does not return although nothing else is running
		}
		if hung || vrt.FakePortBound(lport) || pkgGoroutines() > 0 {
			// everything is closed now, yet the socket or a goroutine of the package survives
			tr.Emit(vrt.M{"ev": "reset", "scenario": sc.Name + "/after-cleanup"})
			tr.Emit(vrt.M{"ev": "call", "p": 1, "op": "lclose", "h": 0})
			if hung {
				tr.Emit(vrt.M{"ev": "quiesce", "blocked": []int{1}, "sock": vrt.FakePortBound(lport), "leaked": pkgGoroutines(), "sched": ex.Trail()})
			} else {
				tr.Emit(vrt.M{"ev": "ret", "p": 1, "res": "ok", "remote": 0, "h": 0})
				tr.Emit(vrt.M{"ev": "quiesce", "blocked": []int{}, "sock": vrt.FakePortBound(lport), "leaked": pkgGoroutines(), "sched": ex.Trail()})
			}
			tr.Close()
			panic("verif: listener socket or goroutine survives the closing of everything (recorded)")
		}
	})
}

// TestVerifUDPSync explores schedules of every scenario over the in-memory socket.
func TestVerifUDPSync(t *testing.T) {
	tr := vrt.Open()
	defer tr.Close()
	budget := vrt.EnvInt("VERIF_BUDGET", 400)
	nrand := vrt.EnvInt("VERIF_RANDOM", 200)
	nfine := vrt.EnvInt("VERIF_FINE", nrand/2)
	rng := rand.New(rand.NewSource(vrt.Seed())) //nolint:gosec
	stats := map[string][3]int{}
	vrt.ReadScenarios(func(line []byte) {
		var sc udpScenario
		if err := json.Unmarshal(line, &sc); err != nil {
			t.Fatal(err)
		}
		b, r := budget, nrand
		if len(sc.Clients) == 1 {
			b, r = 1, 0 // sequential history: a single schedule
		}
		ex := &vrt.Explorer{}
		exhausted := false
		for ex.Runs < b {
			ex.Begin()
			execUDP(t, tr, sc, ex)
			if !ex.Next() {
				exhausted = true

				break
			}
		}
		nr := 0
		if !exhausted {
			rex := &vrt.Explorer{Random: true, Rng: rng}
			for ; nr < r; nr++ {
				rex.Begin()
				execUDP(t, tr, sc, rex)
			}
		}
		if len(sc.Clients) > 1 {
			vrt.SetFine(true)
			fex := &vrt.Explorer{Random: true, Rng: rng}
			for k := 0; k < nfine; k++ {
				fex.Begin()
				execUDP(t, tr, sc, fex)
				nr++
			}
			vrt.SetFine(false)
		}
		e := 0
		if exhausted {
			e = 1
		}
		stats[sc.Name] = [3]int{ex.Runs, nr, e}
	})
	b, _ := json.Marshal(stats)
	t.Logf("events=%d", tr.N)
	if p := os.Getenv("VERIF_STATS"); p != "" {
		_ = os.WriteFile(p, b, 0o644)
	}
}

// TestVerifUDPReplay re-executes one recorded schedule.
func TestVerifUDPReplay(t *testing.T) {
	tr := vrt.Open()
	defer tr.Close()
	var rp struct {
		Scenario udpScenario `json:"scenario"`
		Sched    []int       `json:"sched"`
	}
	b, err := os.ReadFile(os.Getenv("VERIF_REPLAY"))
	if err != nil {
		t.Fatal(err)
	}
	if err := json.Unmarshal(b, &rp); err != nil {
		t.Fatal(err)
	}
	ex := &vrt.Explorer{}
	ex.SetPrefix(rp.Sched)
	ex.Begin()
	execUDP(t, tr, rp.Scenario, ex)
}
