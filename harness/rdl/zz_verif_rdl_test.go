//go:build verif

// Package verifrdl_test drives the read-deadline contract (C10) through the public API of
// every connection type that accepts a read deadline.
package verifrdl_test

import (
	"encoding/json"
	"errors"
	"math/rand"
	"net"
	"os"
	"testing"
	"testing/synctest"
	"time"

	"github.com/pion/logging"
	"github.com/pion/transport/v3/dpipe"
	"github.com/pion/transport/v3/internal/vrt"
	"github.com/pion/transport/v3/packetio"
	"github.com/pion/transport/v3/test"
	"github.com/pion/transport/v3/udp"
	"github.com/pion/transport/v3/vnet"
)

type adapter interface {
	setDL(t time.Time)
	arrive(id int, readerWaiting bool) bool
	read(buf []byte) (int, error)
	close()
}

func payload(id int) []byte {
	p := make([]byte, 12)
	p[0], p[1], p[2], p[3] = byte(id), byte(id>>8), byte(id>>16), byte(id>>24)
	for i := 4; i < len(p); i++ {
		p[i] = byte(id*31 + i)
	}

	return p
}

func decode(p []byte) (int, bool) {
	if len(p) != 12 {
		return -1, false
	}
	id := int(p[0]) | int(p[1])<<8 | int(p[2])<<16 | int(p[3])<<24
	for i := 4; i < len(p); i++ {
		if p[i] != byte(id*31+i) {
			return id, false
		}
	}

	return id, true
}

// --- packetio.Buffer
type bufAd struct{ b *packetio.Buffer }

func (a *bufAd) setDL(t time.Time)            { _ = a.b.SetReadDeadline(t) }
func (a *bufAd) arrive(id int, _ bool) bool   { _, _ = a.b.Write(payload(id)); return true }
func (a *bufAd) read(buf []byte) (int, error) { return a.b.Read(buf) }
func (a *bufAd) close()                       { _ = a.b.Close() }

// --- dpipe
type dpAd struct{ r, w net.Conn }

func (a *dpAd) setDL(t time.Time)            { _ = a.r.SetReadDeadline(t) }
func (a *dpAd) arrive(id int, _ bool) bool   { _, _ = a.w.Write(payload(id)); return true }
func (a *dpAd) read(buf []byte) (int, error) { return a.r.Read(buf) }
func (a *dpAd) close()                       { _ = a.r.Close(); _ = a.w.Close() }

// --- test.Bridge endpoint: a message reaches the endpoint only when Tick finds its reader waiting
type brAd struct {
	br   *test.Bridge
	r, w net.Conn
}

func (a *brAd) setDL(t time.Time) { _ = a.r.SetReadDeadline(t) }
func (a *brAd) arrive(id int, readerWaiting bool) bool {
	if !readerWaiting {
		return false
	}
	_, _ = a.w.Write(payload(id))
	a.br.Tick()

	return true
}
func (a *brAd) read(buf []byte) (int, error) { return a.r.Read(buf) }
func (a *brAd) close() {
	_ = a.r.Close()
	_ = a.w.Close()
	a.br.Tick()
}

// --- vnet UDP socket
type vnAd struct {
	router *vnet.Router
	r, w   net.PacketConn
}

func newVnAd() *vnAd {
	router, err := vnet.NewRouter(&vnet.RouterConfig{CIDR: "10.0.0.0/24", LoggerFactory: logging.NewDefaultLoggerFactory()})
	if err != nil {
		panic(err)
	}
	n1, _ := vnet.NewNet(&vnet.NetConfig{StaticIPs: []string{"10.0.0.1"}})
	n2, _ := vnet.NewNet(&vnet.NetConfig{StaticIPs: []string{"10.0.0.2"}})
	_ = router.AddNet(n1)
	_ = router.AddNet(n2)
	_ = router.Start()
	r, err := n1.ListenPacket("udp4", "10.0.0.1:4000")
	if err != nil {
		panic(err)
	}
	w, err := n2.ListenPacket("udp4", "10.0.0.2:5000")
	if err != nil {
		panic(err)
	}

	return &vnAd{router: router, r: r, w: w}
}

func (a *vnAd) setDL(t time.Time) { _ = a.r.SetReadDeadline(t) }
func (a *vnAd) arrive(id int, _ bool) bool {
	_, _ = a.w.WriteTo(payload(id), a.r.LocalAddr())

	return true
}
func (a *vnAd) read(buf []byte) (int, error) { n, _, err := a.r.ReadFrom(buf); return n, err }
func (a *vnAd) close()                       { _ = a.router.Stop(); _ = a.r.Close(); _ = a.w.Close() }

// --- udp listener connection (real loopback sockets: real-time runs only)
type udpAd struct {
	ln     net.Listener
	conn   net.Conn
	client *net.UDPConn
	nset   int
}

func newUDPAd() *udpAd {
	ln, err := udp.Listen("udp", &net.UDPAddr{IP: net.IPv4(127, 0, 0, 1), Port: 0})
	if err != nil {
		panic(err)
	}
	cl, err := net.DialUDP("udp", nil, ln.Addr().(*net.UDPAddr)) //nolint:forcetypeassert
	if err != nil {
		panic(err)
	}
	_, _ = cl.Write([]byte("hello"))
	c, err := ln.Accept()
	if err != nil {
		panic(err)
	}
	buf := make([]byte, 16)
	_, _ = c.Read(buf)

	return &udpAd{ln: ln, conn: c, client: cl}
}

func (a *udpAd) setDL(t time.Time) {
	a.nset++
	if a.nset%2 == 0 {
		_ = a.conn.SetDeadline(t) // both setters must move the read deadline
	} else {
		_ = a.conn.SetReadDeadline(t)
	}
}

func (a *udpAd) arrive(id int, _ bool) bool {
	_, _ = a.client.Write(payload(id))
	time.Sleep(5 * time.Millisecond)

	return true
}
func (a *udpAd) read(buf []byte) (int, error) { return a.conn.Read(buf) }
func (a *udpAd) close()                       { _ = a.conn.Close(); _ = a.ln.Close(); _ = a.client.Close() }

func newAdapter(name string) adapter {
	switch name {
	case "udp":
		return newUDPAd()
	case "buffer":
		return &bufAd{b: packetio.NewBuffer()}
	case "dpipe":
		a, b := dpipe.Pipe()

		return &dpAd{r: a, w: b}
	case "bridge":
		br := test.NewBridge()

		return &brAd{br: br, r: br.GetConn0(), w: br.GetConn1()}
	case "vnet":
		return newVnAd()
	}
	panic("unknown adapter " + name)
}

func isTimeout(err error) bool {
	var ne net.Error

	return errors.As(err, &ne) && ne.Timeout()
}

type rdlOp struct {
	Op string `json:"op"` // S, A, Arr, R
	K  string `json:"k"`
}

type readRes struct {
	n   int
	err error
	at  time.Time
	buf []byte
}

// runHistory executes one history. tick is the length of one model step (two half ticks);
// settle waits until the system has reacted (synctest.Wait in a bubble, a short sleep otherwise).
func runHistory(tr *vrt.Tracer, name string, ops []rdlOp, tick time.Duration, settle func(), realtime bool) { //nolint:cyclop
	a := newAdapter(name)
	settle()
	base := time.Now()
	half := tick / 2
	k := 0 // number of whole ticks elapsed; the model clock is 2k
	us := func(t time.Time) int64 { return int64(t.Sub(base) / time.Microsecond) }
	tr.Emit(vrt.M{"ev": "reset", "adapter": name})
	pending := false
	resCh := make(chan readRes, 1)
	narr := 0
	collect := func() {
		settle()
		if !pending {
			return
		}
		select {
		case r := <-resCh:
			pending = false
			m := vrt.M{"ev": "ret", "at": us(r.at), "id": 0, "intact": true}
			switch {
			case r.err == nil:
				id, ok := decode(r.buf[:r.n])
				m["res"], m["id"], m["intact"] = "data", id, ok
			case isTimeout(r.err):
				m["res"] = "timeout"
			default:
				m["res"] = "error:" + r.err.Error()
			}
			tr.Emit(m)
		default:
		}
	}
	advanceTo := func(nk int) {
		k = nk
		time.Sleep(time.Until(base.Add(time.Duration(k) * tick)))
		settle()
		tr.Emit(vrt.M{"ev": "adv", "now": 2 * k})
	}
	for _, op := range ops {
		// real-time runs drift away from the even instant while operations are performed: once a
		// quarter of a tick has gone by, move on to the next even instant so that no action comes
		// near a deadline (placed at odd half-ticks)
		if realtime && time.Since(base.Add(time.Duration(k)*tick)) > tick/4 {
			advanceTo(k + 1)
			collect()
		}
		switch op.Op {
		case "S":
			var t time.Time
			mt := 0
			switch op.K {
			case "none":
			case "past":
				mt = 2*k - 1
			case "p1":
				mt = 2*k + 1
			case "far", "far2":
				mt = 1000001 // never reached
			default:
				mt = 2*k + 3
			}
			at := int64(0)
			if mt != 0 {
				t = base.Add(time.Duration(mt) * half)
				at = us(t)
			}
			if op.K == "far" { // centuries ahead: beyond what a time.Duration can express
				t = time.Now().AddDate(400, 0, 0)
				at = 2000000000
			}
			if op.K == "far2" {
				t = time.Date(9999, 12, 31, 23, 59, 59, 0, time.UTC)
				at = 2000000000
			}
			a.setDL(t)
			tr.Emit(vrt.M{"ev": "setdl", "t": mt, "at": at})
		case "A":
			advanceTo(k + 1)
		case "Arr":
			narr++
			if a.arrive(narr, pending) {
				tr.Emit(vrt.M{"ev": "arrive", "id": narr})
			} else {
				narr--
			}
		case "R":
			if !pending {
				pending = true
				tr.Emit(vrt.M{"ev": "read"})
				go func() {
					buf := make([]byte, 64)
					n, err := a.read(buf)
					resCh <- readRes{n: n, err: err, at: time.Now(), buf: buf}
				}()
			}
		}
		collect()
	}
	collect()
	tr.Emit(vrt.M{"ev": "rest"})
	a.close()
	if pending {
		a.setDL(time.Now().Add(-time.Second))
		select {
		case <-resCh:
		case <-time.After(5 * time.Second):
		}
	}
}

var adapters = []string{"buffer", "dpipe", "bridge", "vnet"} //nolint:gochecknoglobals

func loadHistories(t *testing.T) [][]rdlOp {
	t.Helper()
	var hs [][]rdlOp
	vrt.ReadScenarios(func(line []byte) {
		var ops []rdlOp
		if err := json.Unmarshal(line, &ops); err != nil {
			t.Fatal(err)
		}
		hs = append(hs, ops)
	})

	return hs
}

// TestVerifRDLVirtual: every tour history on every adapter, exact virtual time.
func TestVerifRDLVirtual(t *testing.T) {
	tr := vrt.Open()
	defer tr.Close()
	hs := loadHistories(t)
	rng := rand.New(rand.NewSource(vrt.Seed())) //nolint:gosec
	extra := vrt.EnvInt("VERIF_RANDOM", 30)
	for i := 0; i < extra; i++ {
		var ops []rdlOp
		for j := 0; j < 25; j++ {
			switch c := rng.Intn(10); {
			case c < 3:
				ops = append(ops, rdlOp{Op: "S", K: []string{"none", "past", "p1", "p3", "p1", "p3", "far", "far2"}[rng.Intn(8)]})
			case c < 5:
				ops = append(ops, rdlOp{Op: "A"})
			case c < 7:
				ops = append(ops, rdlOp{Op: "Arr"})
			default:
				ops = append(ops, rdlOp{Op: "R"})
			}
		}
		hs = append(hs, ops)
	}
	only := os.Getenv("VERIF_ADAPTER")
	for _, name := range adapters {
		if only != "" && only != name {
			continue
		}
		for _, ops := range hs {
			ops := ops
			if len(ops) > 0 && ops[0].Op == "S" && ops[0].K == "past" {
				continue // no instant before the start of the run
			}
			synctest.Test(t, func(*testing.T) {
				runHistory(tr, name, ops, 100*time.Millisecond, synctest.Wait, false)
			})
		}
	}
	t.Logf("histories=%d events=%d", len(hs), tr.N)
}

// TestVerifRDLRealtime: the vnet socket under the module's own timer-channel semantics
// (go.mod says go 1.20), in real time with wide margins.
func TestVerifRDLRealtime(t *testing.T) {
	tr := vrt.Open()
	defer tr.Close()
	hs := loadHistories(t)
	for _, name := range []string{"vnet", "udp"} {
		for _, ops := range hs {
			runHistory(tr, name, ops, 400*time.Millisecond, func() { time.Sleep(20 * time.Millisecond) }, true)
		}
	}
	t.Logf("histories=%d events=%d", len(hs), tr.N)
}

// TestVerifRDLBoundary: the deadline is cleared or moved at the very instant it expires, so that
// the expiry callback of the old timer and the setter race.  Afterwards only the new setting counts:
// no deadline (reads wait for data) or the later deadline (data first, then a timeout).
func TestVerifRDLBoundary(t *testing.T) { //nolint:cyclop
	tr := vrt.Open()
	defer tr.Close()
	reps := vrt.EnvInt("VERIF_REPS", 3)
	n := 0
	for _, name := range adapters {
		for variant := 0; variant < 8; variant++ {
			for rep := 0; rep < reps; rep++ {
				clearIt, sleepFirst, yield := variant&1 == 0, variant&2 == 0, variant&4 == 0
				n++
				synctest.Test(t, func(*testing.T) {
					tick := 100 * time.Millisecond
					half := tick / 2
					a := newAdapter(name)
					synctest.Wait()
					base := time.Now()
					us := func(t time.Time) int64 { return int64(t.Sub(base) / time.Microsecond) }
					tr.Emit(vrt.M{"ev": "reset", "adapter": name})
					var tm *time.Timer
					if sleepFirst {
						tm = time.NewTimer(half)
					}
					d1 := base.Add(half)
					a.setDL(d1)
					tr.Emit(vrt.M{"ev": "setdl", "t": 1, "at": us(d1)})
					if sleepFirst {
						<-tm.C
					} else {
						time.Sleep(half)
					}
					if yield {
						for i := 0; i < rep; i++ {
							time.Sleep(0) // let the callback get as far as it can
						}
					}
					tr.Emit(vrt.M{"ev": "adv", "now": 1})
					var d2 time.Time
					if clearIt {
						a.setDL(d2)
						tr.Emit(vrt.M{"ev": "setdl", "t": 0, "at": 0})
					} else {
						d2 = base.Add(3 * half)
						a.setDL(d2)
						tr.Emit(vrt.M{"ev": "setdl", "t": 3, "at": us(d2)})
					}
					synctest.Wait()
					time.Sleep(time.Until(base.Add(tick)))
					synctest.Wait()
					tr.Emit(vrt.M{"ev": "adv", "now": 2})
					resCh := make(chan readRes, 1)
					read := func() {
						tr.Emit(vrt.M{"ev": "read"})
						go func() {
							buf := make([]byte, 64)
							n, err := a.read(buf)
							resCh <- readRes{n: n, err: err, at: time.Now(), buf: buf}
						}()
						synctest.Wait()
					}
					ret := func() bool {
						select {
						case r := <-resCh:
							m := vrt.M{"ev": "ret", "at": us(r.at), "id": 0, "intact": true}
							switch {
							case r.err == nil:
								id, ok := decode(r.buf[:r.n])
								m["res"], m["id"], m["intact"] = "data", id, ok
							case isTimeout(r.err):
								m["res"] = "timeout"
							default:
								m["res"] = "error:" + r.err.Error()
							}
							tr.Emit(m)

							return true
						default:
							return false
						}
					}
					read()
					pending := !ret()
					if pending {
						if a.arrive(1, true) {
							tr.Emit(vrt.M{"ev": "arrive", "id": 1})
						}
						synctest.Wait()
						pending = !ret()
					}
					if !pending {
						read()
						pending = !ret()
					}
					time.Sleep(time.Until(base.Add(2 * tick)))
					synctest.Wait()
					tr.Emit(vrt.M{"ev": "adv", "now": 4})
					if pending {
						pending = !ret()
					}
					tr.Emit(vrt.M{"ev": "rest"})
					a.close()
					if pending {
						a.setDL(time.Now().Add(-time.Second))
						select {
						case <-resCh:
						case <-time.After(5 * time.Second):
						}
					}
				})
			}
		}
	}
	t.Logf("runs=%d events=%d", n, tr.N)
}
