package vrt

import (
	"errors"
	"net"
	"sync"
	"time"
)

// In-memory UDP for runs inside testing/synctest bubbles, where real network I/O is not
// durably blocking. tools/instr redirects net.ListenUDP in package udp to ListenUDP below.

var errFakeInUse = errors.New("fake udp: address already in use") //nolint:gochecknoglobals

type fakePkt struct {
	b    []byte
	from net.Addr
}

var fakeNet = struct { //nolint:gochecknoglobals
	mu    sync.Mutex
	ports map[int]*FakeUDPConn
	next  int
}{ports: map[int]*FakeUDPConn{}, next: 40000}

// FakeUDPConn is an in-memory datagram socket bound to 127.0.0.1:<port>.
type FakeUDPConn struct {
	addr   *net.UDPAddr
	in     chan fakePkt
	closed chan struct{}
	once   sync.Once
}

// ResetFakeNet forgets every socket.
func ResetFakeNet() {
	fakeNet.mu.Lock()
	fakeNet.ports = map[int]*FakeUDPConn{}
	fakeNet.mu.Unlock()
}

// FakePortBound reports whether a socket is bound to the port.
func FakePortBound(port int) bool {
	fakeNet.mu.Lock()
	defer fakeNet.mu.Unlock()
	_, ok := fakeNet.ports[port]

	return ok
}

// ListenUDP binds an in-memory socket (port 0 picks a free one).
func ListenUDP(_ string, laddr *net.UDPAddr) (*FakeUDPConn, error) {
	fakeNet.mu.Lock()
	defer fakeNet.mu.Unlock()
	port := 0
	if laddr != nil {
		port = laddr.Port
	}
	if port == 0 {
		for {
			fakeNet.next++
			if _, used := fakeNet.ports[fakeNet.next]; !used {
				port = fakeNet.next

				break
			}
		}
	} else if _, used := fakeNet.ports[port]; used {
		return nil, errFakeInUse
	}
	c := &FakeUDPConn{
		addr:   &net.UDPAddr{IP: net.IPv4(127, 0, 0, 1), Port: port},
		in:     make(chan fakePkt, 8192),
		closed: make(chan struct{}),
	}
	fakeNet.ports[port] = c

	return c, nil
}

// ReadFrom implements net.PacketConn.
func (c *FakeUDPConn) ReadFrom(p []byte) (int, net.Addr, error) {
	select {
	case <-c.closed:
		return 0, nil, net.ErrClosed
	default:
	}
	select {
	case pkt := <-c.in:
		return copy(p, pkt.b), pkt.from, nil
	case <-c.closed:
		return 0, nil, net.ErrClosed
	}
}

// WriteTo implements net.PacketConn.
func (c *FakeUDPConn) WriteTo(p []byte, addr net.Addr) (int, error) {
	select {
	case <-c.closed:
		return 0, net.ErrClosed
	default:
	}
	ua, ok := addr.(*net.UDPAddr)
	if !ok {
		return 0, errors.New("fake udp: not a UDP address") //nolint:err113
	}
	fakeNet.mu.Lock()
	dst := fakeNet.ports[ua.Port]
	fakeNet.mu.Unlock()
	if dst != nil {
		pkt := fakePkt{b: append([]byte(nil), p...), from: c.addr}
		select {
		case <-dst.closed:
		case dst.in <- pkt:
		default: // receive queue full: dropped, like a kernel would
		}
	}

	return len(p), nil
}

// Close implements net.PacketConn.
func (c *FakeUDPConn) Close() error {
	err := net.ErrClosed
	c.once.Do(func() {
		fakeNet.mu.Lock()
		if fakeNet.ports[c.addr.Port] == c {
			delete(fakeNet.ports, c.addr.Port)
		}
		fakeNet.mu.Unlock()
		close(c.closed)
		err = nil
	})

	return err
}

// LocalAddr implements net.PacketConn.
func (c *FakeUDPConn) LocalAddr() net.Addr { return c.addr }

// SetDeadline implements net.PacketConn (no-op).
func (c *FakeUDPConn) SetDeadline(time.Time) error { return nil }

// SetReadDeadline implements net.PacketConn (no-op).
func (c *FakeUDPConn) SetReadDeadline(time.Time) error { return nil }

// SetWriteDeadline implements net.PacketConn (no-op).
func (c *FakeUDPConn) SetWriteDeadline(time.Time) error { return nil }

// SetReadBuffer mirrors *net.UDPConn.
func (c *FakeUDPConn) SetReadBuffer(int) error { return nil }

// SetWriteBuffer mirrors *net.UDPConn.
func (c *FakeUDPConn) SetWriteBuffer(int) error { return nil }
