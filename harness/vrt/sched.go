package vrt

import (
	"bytes"
	"math/rand"
	"runtime"
	"sort"
	"strconv"
	"sync"
	"sync/atomic"
	"time"
)

// Gate scheduler. The instr pass inserts Yield before every synchronisation operation of
// the code under test. While a Sched is installed, a goroutine reaching Yield parks on a
// channel (unless it holds a lock, so critical sections stay atomic steps) until the
// controller releases it. The controller runs in the main goroutine of a testing/synctest
// bubble: after Wait() every other goroutine is parked at a gate or durably blocked, so the
// code between two gates runs alone and a schedule is the list of the controller's choices.

var cur atomic.Pointer[Sched] //nolint:gochecknoglobals

// Waiter is a goroutine parked at a gate.
type Waiter struct {
	Gid   uint64
	Label string
	ch    chan struct{}
	// fine mode: the goroutine wants a lock it failed to get when relGen had this value (+1); it
	// is not offered to the explorer again before some lock has been released
	failGen uint64
}

// Sched is the controller state.
type Sched struct {
	mu     sync.Mutex
	parked map[uint64]*Waiter
	held   map[uint64]int
	exempt map[uint64]bool
	Wait   func() // synctest.Wait
	closed bool
	Steps  int
	// Fine: goroutines park at gates also inside critical sections and take locks cooperatively
	// (TryLock at a gate), so that code holding a lock interleaves with unlocked code elsewhere.
	Fine   bool
	relGen uint64 // number of lock releases so far
}

var fineNext atomic.Bool //nolint:gochecknoglobals

// SetFine selects the mode of the schedulers created from now on.
func SetFine(f bool) { fineNext.Store(f) }

// IsFine reports the mode selected by SetFine.
func IsFine() bool { return fineNext.Load() }

// NewSched creates a scheduler; the calling goroutine (the controller) is exempt from gating.
func NewSched(wait func()) *Sched {
	s := &Sched{parked: map[uint64]*Waiter{}, held: map[uint64]int{}, exempt: map[uint64]bool{}, Wait: wait}
	s.exempt[Goid()] = true
	s.Fine = fineNext.Load()

	return s
}

// Install makes s the active scheduler.
func Install(s *Sched) { cur.Store(s) }

// Uninstall removes the active scheduler and releases every parked goroutine.
func Uninstall() {
	s := cur.Swap(nil)
	if s == nil {
		return
	}
	s.mu.Lock()
	s.closed = true
	for g, w := range s.parked {
		close(w.ch)
		delete(s.parked, g)
	}
	s.mu.Unlock()
}

// Goid returns the id of the calling goroutine.
func Goid() uint64 {
	var buf [64]byte
	n := runtime.Stack(buf[:], false)
	f := bytes.Fields(buf[:n])
	id, _ := strconv.ParseUint(string(f[1]), 10, 64)

	return id
}

// Yield is a scheduling point.
func Yield(label string) {
	s := cur.Load()
	if s == nil {
		return
	}
	g := Goid()
	s.mu.Lock()
	if s.closed || s.exempt[g] || (s.held[g] > 0 && !s.Fine) {
		s.mu.Unlock()

		return
	}
	w := &Waiter{Gid: g, Label: label, ch: make(chan struct{})}
	s.parked[g] = w
	s.mu.Unlock()
	<-w.ch
}

// DoLock takes a lock of the code under test: a gate, then the lock, taken with try; the goroutine goes
// back to the gate when somebody else holds it and is offered again once a lock has been released.
func DoLock(label string, try func() bool, lock func()) {
	s := cur.Load()
	if s == nil {
		lock()

		return
	}
	g := Goid()
	s.mu.Lock()
	plain := s.closed || s.exempt[g] || (s.held[g] > 0 && !s.Fine)
	s.mu.Unlock()
	if plain { // no gate here (controller, or a nested lock inside an atomic critical section)
		lock()
		Acquired()

		return
	}
	// The lock is taken with try at the gate: the holder may be blocked (on a channel, say) while it
	// holds the lock, and a goroutine waiting in a real Lock would never let the bubble come to rest.
	var fail uint64
	for {
		s.mu.Lock()
		if s.closed {
			s.mu.Unlock()
			lock()

			return
		}
		w := &Waiter{Gid: g, Label: label, ch: make(chan struct{}), failGen: fail}
		s.parked[g] = w
		s.mu.Unlock()
		<-w.ch
		if try() {
			Acquired()

			return
		}
		s.mu.Lock()
		fail = s.relGen + 1
		s.mu.Unlock()
	}
}

// Acquired records that the calling goroutine took a lock.
func Acquired() {
	if s := cur.Load(); s != nil {
		g := Goid()
		s.mu.Lock()
		s.held[g]++
		s.mu.Unlock()
	}
}

// Released records that the calling goroutine is about to drop a lock.
func Released() {
	if s := cur.Load(); s != nil {
		g := Goid()
		s.mu.Lock()
		if s.held[g] > 0 {
			s.held[g]--
		}
		s.relGen++
		s.mu.Unlock()
	}
}

// Parked waits until every other goroutine is parked or durably blocked and returns the
// parked ones in creation order.
func (s *Sched) Parked() []*Waiter {
	s.Wait()
	s.mu.Lock()
	defer s.mu.Unlock()
	out := make([]*Waiter, 0, len(s.parked))
	for _, w := range s.parked {
		if w.failGen == s.relGen+1 {
			continue // waits for a lock that nobody has released since it last tried
		}
		out = append(out, w)
	}
	sort.Slice(out, func(i, j int) bool { return out[i].Gid < out[j].Gid })

	return out
}

// Release lets one parked goroutine continue to its next gate.
func (s *Sched) Release(w *Waiter) {
	s.mu.Lock()
	delete(s.parked, w.Gid)
	s.mu.Unlock()
	s.Steps++
	close(w.ch)
}

// Explorer enumerates choice sequences depth-first by stateless re-execution, or draws
// them at random.
type Explorer struct {
	prefix []int
	trail  [][2]int // (options, pick)
	Rng    *rand.Rand
	Random bool
	Runs   int
	// Mode selects a directed schedule of the driver: "probe" (clients one after the other, counting
	// the gates each passes before it blocks) or "brink" (see the buffer driver); "" = explore.
	Mode  string
	Gates map[int]int // probe result: client -> gates passed before it first blocked or finished
}

// Begin starts one execution.
func (e *Explorer) Begin() { e.trail = e.trail[:0]; e.Runs++ }

// Choose picks one of n options (n >= 1).
func (e *Explorer) Choose(n int) int {
	if n <= 1 {
		return 0
	}
	pick := 0
	switch {
	case e.Random:
		pick = e.Rng.Intn(n)
	case len(e.trail) < len(e.prefix):
		pick = e.prefix[len(e.trail)]
		if pick >= n {
			pick = n - 1
		}
	}
	e.trail = append(e.trail, [2]int{n, pick})

	return pick
}

// Force records a choice made by the driver itself (directed schedules).
func (e *Explorer) Force(n, pick int) int {
	e.trail = append(e.trail, [2]int{n, pick})

	return pick
}

// Trail returns the choices of the current execution.
func (e *Explorer) Trail() []int {
	out := make([]int, len(e.trail))
	for i, t := range e.trail {
		out[i] = t[1]
	}

	return out
}

// Next prepares the next execution of a depth-first enumeration; false when exhausted.
func (e *Explorer) Next() bool {
	if e.Random {
		return true
	}
	i := len(e.trail) - 1
	for i >= 0 && e.trail[i][1]+1 >= e.trail[i][0] {
		i--
	}
	if i < 0 {
		return false
	}
	e.prefix = e.prefix[:0]
	for j := 0; j < i; j++ {
		e.prefix = append(e.prefix, e.trail[j][1])
	}
	e.prefix = append(e.prefix, e.trail[i][1]+1)

	return true
}

// SetPrefix forces the first choices (replay of a recorded schedule).
func (e *Explorer) SetPrefix(p []int) { e.prefix = append([]int(nil), p...) }

// RealWait is the quiescence test for real-time (non-bubble) runs: it returns once every
// goroutine other than the caller is blocked (channel, select, sleep, wait), judged from a
// full goroutine dump. Goroutines blocked on timers count as blocked: real time is not
// controlled, a timer may fire at any moment.
func RealWait() {
	buf := make([]byte, 1<<20)
	me := Goid()
	for spin := 0; ; spin++ {
		n := runtime.Stack(buf, true)
		quiet := true
		for _, blk := range bytes.Split(buf[:n], []byte("\n\n")) {
			if !bytes.HasPrefix(blk, []byte("goroutine ")) {
				continue
			}
			hdr := blk
			if i := bytes.IndexByte(blk, '\n'); i >= 0 {
				hdr = blk[:i]
			}
			f := bytes.Fields(hdr)
			id, _ := strconv.ParseUint(string(f[1]), 10, 64)
			if id == me {
				continue
			}
			st := hdr[bytes.IndexByte(hdr, '[')+1:]
			switch {
			case bytes.HasPrefix(st, []byte("chan receive")), bytes.HasPrefix(st, []byte("chan send")),
				bytes.HasPrefix(st, []byte("select")), bytes.HasPrefix(st, []byte("sleep")),
				bytes.HasPrefix(st, []byte("IO wait")), bytes.HasPrefix(st, []byte("sync.Cond.Wait")),
				bytes.HasPrefix(st, []byte("sync.WaitGroup.Wait")), bytes.HasPrefix(st, []byte("semacquire")),
				bytes.HasPrefix(st, []byte("finalizer wait")), bytes.HasPrefix(st, []byte("GC ")),
				bytes.HasPrefix(st, []byte("force gc")), bytes.HasPrefix(st, []byte("syscall")),
				bytes.HasPrefix(st, []byte("trace reader")), bytes.HasPrefix(st, []byte("chan receive (nil chan)")):
			default:
				quiet = false
			}
		}
		if quiet {
			return
		}
		if spin < 50 {
			runtime.Gosched()
		} else {
			time.Sleep(20 * time.Microsecond)
		}
	}
}
