// Package vrt is the verification runtime injected into a scratch copy of
// pion/transport as internal/vrt by the /verif checks. It is never part of
// /repo. It provides NDJSON trace recording, scenario input and helpers.
package vrt

import (
	"bufio"
	"encoding/json"
	"os"
	"strconv"
	"sync"
	"time"
)

// Tracer appends one JSON object per line to the file named by VERIF_TRACE.
type Tracer struct {
	mu sync.Mutex
	f  *os.File
	w  *bufio.Writer
	N  int
}

// Open opens the trace file named by the environment variable (default VERIF_TRACE).
func Open(envs ...string) *Tracer {
	env := "VERIF_TRACE"
	if len(envs) > 0 {
		env = envs[0]
	}
	p := os.Getenv(env)
	if p == "" {
		panic("vrt: " + env + " not set")
	}
	f, err := os.OpenFile(p, os.O_CREATE|os.O_WRONLY|os.O_APPEND, 0o644)
	if err != nil {
		panic(err)
	}

	return &Tracer{f: f, w: bufio.NewWriterSize(f, 1<<20)}
}

// M is one trace line.
type M map[string]any

// Emit writes one line.
func (t *Tracer) Emit(m M) {
	b, err := json.Marshal(m)
	if err != nil {
		panic(err)
	}
	t.mu.Lock()
	t.w.Write(b)        //nolint
	t.w.WriteByte('\n') //nolint
	t.N++
	t.mu.Unlock()
}

// Close flushes and closes the file.
func (t *Tracer) Close() {
	t.mu.Lock()
	defer t.mu.Unlock()
	t.w.Flush() //nolint
	t.f.Close() //nolint
}

// Limbs encodes x as three base-2^22 limbs (hi, mid, lo) for the TLA+ Num module.
func Limbs(x uint64) [3]uint64 {
	const m = 1<<22 - 1

	return [3]uint64{x >> 44, (x >> 22) & m, x & m}
}

// Seed returns VERIF_SEED (default 1).
func Seed() int64 {
	s, err := strconv.ParseInt(os.Getenv("VERIF_SEED"), 10, 64)
	if err != nil {
		return 1
	}

	return s
}

// EnvInt returns an integer environment variable or def.
func EnvInt(name string, def int) int {
	s, err := strconv.Atoi(os.Getenv(name))
	if err != nil {
		return def
	}

	return s
}

// ReadScenarios reads JSON lines from the file named by VERIF_SCEN (may be absent).
func ReadScenarios(fn func(line []byte)) {
	p := os.Getenv("VERIF_SCEN")
	if p == "" {
		return
	}
	f, err := os.Open(p)
	if err != nil {
		panic(err)
	}
	defer f.Close() //nolint
	sc := bufio.NewScanner(f)
	sc.Buffer(make([]byte, 1<<20), 1<<26)
	for sc.Scan() {
		if len(sc.Bytes()) > 0 {
			fn(append([]byte(nil), sc.Bytes()...))
		}
	}
}

// Watchdog calls onFire (from a goroutine outside any synctest bubble, on the real clock) unless
// the returned stop function is called within d. A bubble whose goroutines wait for a sync.Mutex or
// sync.Once held by a blocked goroutine never comes to rest and never reports a deadlock; the
// watchdog lets the driver record that and stop instead of running into the test timeout.
func Watchdog(d time.Duration, onFire func()) (stop func()) {
	t := time.AfterFunc(d, onFire)

	return func() { t.Stop() }
}
