//go:build verif

package vnet_test

import (
	"fmt"
	"math/rand"
	"net"
	"sync"
	"sync/atomic"
	"testing"
	"testing/synctest"
	"time"

	"github.com/pion/logging"
	"github.com/pion/transport/v3/internal/vrt"
	"github.com/pion/transport/v3/vnet"
)

// ip encoding shared with VNet.tla: 1.2.3.x -> x, 192.168.k.x -> 1000k+x, 127.0.0.1 -> 999001
func encIP(ip net.IP) int {
	v := ip.To4()
	switch {
	case v == nil:
		return -1
	case v[0] == 1 && v[1] == 2 && v[2] == 3:
		return int(v[3])
	case v[0] == 192 && v[1] == 168:
		return 1000*int(v[2]) + int(v[3])
	case v[0] == 127:
		return 999001
	default:
		return 888000 + int(v[3])
	}
}

func decIP(x int) net.IP {
	switch {
	case x == 999001:
		return net.IPv4(127, 0, 0, 1)
	case x >= 888000:
		return net.IPv4(8, 8, 8, byte(x-888000))
	case x >= 1000:
		return net.IPv4(192, 168, byte(x/1000), byte(x%1000))
	default:
		return net.IPv4(1, 2, 3, byte(x))
	}
}

func encAddr(a net.Addr) [2]int {
	u, ok := a.(*net.UDPAddr)
	if !ok {
		return [2]int{-1, -1}
	}

	return [2]int{encIP(u.IP), u.Port}
}

type rtrDesc struct {
	ID     int      `json:"id"`
	Parent int      `json:"parent"`
	Lo     int      `json:"lo"`
	Hi     int      `json:"hi"`
	Wan    []int    `json:"wan"`
	Mode   string   `json:"mode"`
	MapB   string   `json:"mapb"`
	FiltB  string   `json:"filtb"`
	Pairs  [][2]int `json:"pairs"` // local ip, wan ip
	cidr   string
	queue  int           // RouterConfig.QueueSize (0: unlimited)
	delay  time.Duration // fixed MinDelay (0: drawn at random)
}

type hostDesc struct {
	ID     int   `json:"id"`
	Router int   `json:"router"`
	IPs    []int `json:"ips"`
}

var behNames = []string{"ind", "addr", "addrport"} //nolint:gochecknoglobals

func behOf(s string) vnet.EndpointDependencyType {
	switch s {
	case "addr":
		return vnet.EndpointAddrDependent
	case "addrport":
		return vnet.EndpointAddrPortDependent
	default:
		return vnet.EndpointIndependent
	}
}

type world struct {
	tr      *vrt.Tracer
	mu      sync.Mutex
	routers map[int]*vnet.Router
	nets    map[int]*vnet.Net
	socks   map[int]net.PacketConn
	sockOf  map[int]hostDesc
	want    map[int][]byte
	emptyID atomic.Int64
	seen    map[int][][2]int // sock -> shown sources, in arrival order
	nextID  int
	root    int
	wg      sync.WaitGroup
	rng     *rand.Rand
}

func (w *world) emit(m vrt.M) { w.mu.Lock(); w.tr.Emit(m); w.mu.Unlock() }

func payload(id, n int) []byte {
	p := make([]byte, n)
	for i := range p {
		if i < 4 {
			p[i] = byte(id >> (8 * uint(i)))
		} else {
			p[i] = byte(id*7 + i*13)
		}
	}

	return p
}

func (w *world) idOf(p []byte) int {
	if len(p) < 4 {
		return int(w.emptyID.Load())
	}

	return int(p[0]) | int(p[1])<<8 | int(p[2])<<16 | int(p[3])<<24
}

func build(tr *vrt.Tracer, rng *rand.Rand, rs []rtrDesc, hs []hostDesc) *world {
	w := &world{
		tr: tr, routers: map[int]*vnet.Router{}, nets: map[int]*vnet.Net{}, socks: map[int]net.PacketConn{},
		sockOf: map[int]hostDesc{}, want: map[int][]byte{}, seen: map[int][][2]int{}, rng: rng,
	}
	lf := logging.NewDefaultLoggerFactory()
	for _, r := range rs {
		cfg := &vnet.RouterConfig{CIDR: r.cidr, LoggerFactory: lf, Name: fmt.Sprintf("r%d", r.ID)}
		if r.delay > 0 {
			cfg.MinDelay = r.delay
			cfg.QueueSize = r.queue
		} else if rng.Intn(2) == 0 {
			// a delay makes chunks pile up in the router's queue (order must still be kept)
			cfg.MinDelay = time.Duration(1+rng.Intn(5)) * time.Millisecond
		}
		if r.Parent != 0 {
			if r.Mode == "1to1" {
				cfg.NATType = &vnet.NATType{Mode: vnet.NATModeNAT1To1}
				for _, p := range r.Pairs {
					cfg.StaticIPs = append(cfg.StaticIPs, decIP(p[1]).String()+"/"+decIP(p[0]).String())
				}
			} else {
				cfg.NATType = &vnet.NATType{MappingBehavior: behOf(r.MapB), FilteringBehavior: behOf(r.FiltB), MappingLifeTime: time.Hour}
				for _, x := range r.Wan {
					cfg.StaticIPs = append(cfg.StaticIPs, decIP(x).String())
				}
			}
		}
		rt, err := vnet.NewRouter(cfg)
		if err != nil {
			panic(err)
		}
		w.routers[r.ID] = rt
		if r.Parent != 0 {
			if err := w.routers[r.Parent].AddRouter(rt); err != nil {
				panic(err)
			}
		}
		rid := r.ID
		rt.AddChunkFilter(func(c vnet.Chunk) bool {
			w.emit(vrt.M{"ev": "hop", "r": rid, "id": w.idOf(c.UserData()), "src": encAddr(c.SourceAddr()), "dst": encAddr(c.DestinationAddr())})

			return true
		})
	}
	for i, h := range hs {
		var ips []string
		for _, x := range h.IPs {
			ips = append(ips, decIP(x).String())
		}
		nw, err := vnet.NewNet(&vnet.NetConfig{StaticIPs: ips})
		if err != nil {
			panic(err)
		}
		if err := w.routers[h.Router].AddNet(nw); err != nil {
			panic(err)
		}
		w.nets[h.ID] = nw
		if len(h.IPs) == 0 { // automatically assigned address: whatever the router handed out
			ifc, err := nw.InterfaceByName("eth0")
			if err != nil {
				panic(err)
			}
			addrs, _ := ifc.Addrs()
			for _, a := range addrs {
				if ipn, ok := a.(*net.IPNet); ok {
					hs[i].IPs = append(hs[i].IPs, encIP(ipn.IP))
				}
			}
			if len(hs[i].IPs) == 0 {
				panic("verif: host without an address")
			}
		}
	}
	w.root = rs[0].ID
	if err := w.routers[rs[0].ID].Start(); err != nil {
		panic(err)
	}
	tr.Emit(vrt.M{"ev": "reset", "routers": rs, "hosts": hs})

	return w
}

// bind opens a socket on host h and starts its reader.
func (w *world) bind(s int, h hostDesc, ip, port int) {
	ipStr := "0.0.0.0"
	if ip != 0 {
		ipStr = decIP(ip).String()
	}
	c, err := w.nets[h.ID].ListenPacket("udp4", fmt.Sprintf("%s:%d", ipStr, port))
	if err != nil {
		panic(err)
	}
	w.socks[s] = c
	w.sockOf[s] = h
	w.emit(vrt.M{"ev": "bind", "s": s, "host": h.ID, "ip": ip, "port": port})
	w.wg.Add(1)
	go func() {
		defer w.wg.Done()
		buf := make([]byte, 2000)
		for {
			n, from, err := c.ReadFrom(buf)
			if err != nil {
				return
			}
			id := w.idOf(buf[:n])
			w.mu.Lock()
			ok := string(w.want[id]) == string(buf[:n])
			src := encAddr(from)
			w.seen[s] = append(w.seen[s], src)
			w.tr.Emit(vrt.M{"ev": "recv", "s": s, "id": id, "src": src, "n": n, "intact": ok})
			w.mu.Unlock()
		}
	}()
}

type sendOp struct {
	s   int
	dst [2]int
	n   int
}

// batch runs the sends of each socket in its own goroutine, then waits for the network to drain.
func (w *world) batch(ops []sendOp) {
	by := map[int][]sendOp{}
	var order []int
	for _, o := range ops {
		if _, ok := by[o.s]; !ok {
			order = append(order, o.s)
		}
		by[o.s] = append(by[o.s], o)
	}
	var wg sync.WaitGroup
	for _, s := range order {
		wg.Add(1)
		go func(list []sendOp) {
			defer wg.Done()
			for _, o := range list {
				w.mu.Lock()
				w.nextID++
				id := w.nextID
				p := payload(id, o.n)
				w.want[id] = append([]byte(nil), p...)
				w.tr.Emit(vrt.M{"ev": "send", "s": o.s, "id": id, "dst": o.dst, "len": o.n})
				w.mu.Unlock()
				_, _ = w.socks[o.s].WriteTo(p, &net.UDPAddr{IP: decIP(o.dst[0]), Port: o.dst[1]})
				for i := range p {
					p[i] = 0xEE // the caller may overwrite its buffer as soon as the write returns
				}
			}
		}(by[s])
	}
	wg.Wait()
	time.Sleep(200 * time.Millisecond) // longer than every configured delay on any path (virtual time)
	synctest.Wait()
	w.emit(vrt.M{"ev": "flush"})
}

// sendOne writes one datagram without waiting for the network to drain.
func (w *world) sendOne(o sendOp) {
	w.mu.Lock()
	w.nextID++
	id := w.nextID
	p := payload(id, o.n)
	w.want[id] = append([]byte(nil), p...)
	w.tr.Emit(vrt.M{"ev": "send", "s": o.s, "id": id, "dst": o.dst, "len": o.n})
	w.mu.Unlock()
	_, _ = w.socks[o.s].WriteTo(p, &net.UDPAddr{IP: decIP(o.dst[0]), Port: o.dst[1]})
}

// sendEmpty sends one empty datagram and lets it settle (its identity travels out of band).
func (w *world) sendEmpty(s int, dst [2]int) {
	w.mu.Lock()
	w.nextID++
	id := w.nextID
	w.want[id] = []byte{}
	w.emptyID.Store(int64(id))
	w.tr.Emit(vrt.M{"ev": "send", "s": s, "id": id, "dst": dst, "len": 0})
	w.mu.Unlock()
	_, _ = w.socks[s].WriteTo([]byte{}, &net.UDPAddr{IP: decIP(dst[0]), Port: dst[1]})
	time.Sleep(200 * time.Millisecond)
	synctest.Wait()
	w.emit(vrt.M{"ev": "flush"})
}

func (w *world) close() {
	for _, c := range w.socks {
		_ = c.Close()
	}
	_ = w.routers[w.root].Stop() // stops the children too
	w.wg.Wait()
}

func lanCIDR(k int) (string, int, int) {
	return fmt.Sprintf("192.168.%d.0/24", k), 1000 * k, 1000*k + 255
}

// topologies returns the generated family: flat, one NAT, nested NATs to depth 3, 1:1 NAT.
// The NAT types of the LAN routers are dealt from a seeded permutation of the nine combinations, one per
// router and repetition, so that nine repetitions show every router position every type (and three
// repetitions every type somewhere) whatever the scheduler does to the rest of the random choices.
func topologies(rng *rand.Rand, perm []int, draw *int) [][2]any {
	nt := func() (string, string) {
		c := perm[*draw%9]
		*draw++

		return behNames[c/3], behNames[c%3]
	}
	root := rtrDesc{ID: 1, Lo: 0, Hi: 255, Wan: []int{}, Mode: "napt", MapB: "ind", FiltB: "ind", Pairs: [][2]int{}, cidr: "1.2.3.0/24"}
	lan := func(id, parent, k int, wan []int) rtrDesc {
		c, lo, hi := lanCIDR(k)
		mb, fb := nt()

		return rtrDesc{ID: id, Parent: parent, Lo: lo, Hi: hi, Wan: wan, Mode: "napt", MapB: mb, FiltB: fb, Pairs: [][2]int{}, cidr: c}
	}
	var out [][2]any
	// flat
	out = append(out, [2]any{[]rtrDesc{root}, []hostDesc{{1, 1, []int{21}}, {2, 1, []int{22, 23}}, {3, 1, []int{}}}})
	// one NAT (two WAN addresses half of the time)
	wan := []int{10}
	if (*draw/4)%2 == 0 {
		wan = []int{10, 11}
	}
	out = append(out, [2]any{
		[]rtrDesc{root, lan(2, 1, 1, wan)},
		[]hostDesc{{1, 2, []int{1002}}, {2, 2, []int{}}, {3, 1, []int{21}}, {4, 1, []int{22}}},
	})
	// nested to depth 3
	out = append(out, [2]any{
		[]rtrDesc{root, lan(2, 1, 1, []int{10}), lan(3, 2, 2, []int{1010}), lan(4, 3, 3, []int{2010})},
		[]hostDesc{{1, 4, []int{3002}}, {2, 3, []int{2002}}, {3, 2, []int{1002}}, {4, 1, []int{21}}, {5, 1, []int{22}}},
	})
	// 1:1 NAT with two pairs and one unpaired host
	c, lo, hi := lanCIDR(1)
	one := rtrDesc{ID: 2, Parent: 1, Lo: lo, Hi: hi, Wan: []int{11, 12}, Mode: "1to1", MapB: "ind", FiltB: "ind", Pairs: [][2]int{{1001, 11}, {1006, 12}}, cidr: c}
	out = append(out, [2]any{
		[]rtrDesc{root, one},
		// the first host takes the first automatic address of the LAN (192.168.1.1), which is paired
		[]hostDesc{{1, 2, []int{}}, {2, 2, []int{1006}}, {3, 2, []int{1007}}, {4, 1, []int{21}}, {5, 1, []int{22}}},
	})

	return out
}

// TestVerifVNet drives traffic plans over the generated topologies in virtual time.
func TestVerifVNet(t *testing.T) { //nolint:cyclop,gocognit
	tr := vrt.Open()
	defer tr.Close()
	rng := rand.New(rand.NewSource(vrt.Seed())) //nolint:gosec
	reps := vrt.EnvInt("VERIF_REPS", 3)
	burst := vrt.EnvInt("VERIF_BURST", 20)
	perm := rand.New(rand.NewSource(vrt.Seed() + 77)).Perm(9) //nolint:gosec
	draw := 0
	for rep := 0; rep < reps; rep++ {
		for _, tp := range topologies(rng, perm, &draw) {
			rs, hs := tp[0].([]rtrDesc), tp[1].([]hostDesc) //nolint:forcetypeassert
			synctest.Test(t, func(*testing.T) {
				w := build(tr, rng, rs, hs)
				// sockets: per host one on its primary address (port 5000+h), one wildcard (6000+h),
				// a second-address socket for multi-homed hosts
				s := 0
				var all []int
				addrOf := map[int][2]int{}
				wanSocks := []int{}
				wanAll := []int{} // every socket of the hosts on the root network
				for _, h := range hs {
					s++
					w.bind(s, h, h.IPs[0], 5000+h.ID)
					addrOf[s] = [2]int{h.IPs[0], 5000 + h.ID}
					all = append(all, s)
					if h.Router == 1 {
						wanSocks = append(wanSocks, s)
					}
					s++
					w.bind(s, h, 0, 6000+h.ID)
					addrOf[s] = [2]int{h.IPs[0], 6000 + h.ID}
					all = append(all, s)
					if h.Router == 1 {
						wanAll = append(wanAll, s-1, s)
					}
					if len(h.IPs) > 1 {
						s++
						w.bind(s, h, h.IPs[1], 5000+h.ID)
						addrOf[s] = [2]int{h.IPs[1], 5000 + h.ID}
						all = append(all, s)
						wanAll = append(wanAll, s)
					}
				}
				sz := func() int { return []int{4, 5, 16, 100, 1200, 1500, 4 + rng.Intn(1400)}[rng.Intn(7)] }
				// B1: everybody writes to every socket of the WAN hosts
				var ops []sendOp
				for _, a := range all {
					for _, b := range wanAll {
						if a != b {
							ops = append(ops, sendOp{a, addrOf[b], sz()})
						}
					}
				}
				w.batch(ops)
				// B2: every receiver answers every source it was shown
				reply := func() {
					ops = nil
					w.mu.Lock()
					for sk, srcs := range w.seen {
						done := map[[2]int]bool{}
						for _, src := range srcs {
							if !done[src] {
								done[src] = true
								ops = append(ops, sendOp{sk, src, sz()})
							}
						}
					}
					w.mu.Unlock()
					w.batch(ops)
				}
				reply()
				// B3: strangers, unbound ports, unroutable, loopback, hairpin
				ops = nil
				w.mu.Lock()
				var exts [][2]int
				for _, sk := range wanSocks {
					exts = append(exts, w.seen[sk]...)
				}
				w.mu.Unlock()
				for i, e := range exts {
					if i%3 == 0 {
						ops = append(ops, sendOp{wanSocks[len(wanSocks)-1] + 1, e, sz()}) // the wildcard socket of the last WAN host: another port
					}
					if i%5 == 0 {
						ops = append(ops, sendOp{all[0], e, sz()}) // from the innermost host to an external address (hairpin / sibling)
					}
					if i%7 == 0 {
						ops = append(ops, sendOp{wanSocks[0], [2]int{e[0], e[1] + 1000}, sz()}) // never-allocated port on that address
					}
					if e[0] == 10 && i%2 == 0 {
						ops = append(ops, sendOp{wanSocks[0], [2]int{11, e[1]}, sz()}) // same port on the router's other WAN address (if any)
					}
				}
				for _, a := range all {
					if rng.Intn(2) == 0 {
						ops = append(ops, sendOp{a, [2]int{21, 4999}, sz()})             // unbound port
						ops = append(ops, sendOp{a, [2]int{888008, 53}, sz()})           // unroutable
						ops = append(ops, sendOp{a, [2]int{999001, addrOf[a][1]}, sz()}) // loopback to own port
						ops = append(ops, sendOp{a, [2]int{999001, 1}, sz()})            // loopback, unbound
						ops = append(ops, sendOp{a, [2]int{200, 5000}, sz()})            // no such host
					}
				}
				w.batch(ops)
				// B4: bursts on the same flows from concurrent senders (two rounds: the queues have wrapped by then)
				ops = nil
				target := addrOf[wanSocks[0]]
				for i := 0; i < burst; i++ {
					for _, a := range []int{all[0], all[2], wanSocks[len(wanSocks)-1]} {
						if a != wanSocks[0] {
							ops = append(ops, sendOp{a, target, sz()})
						}
					}
				}
				w.batch(ops)
				w.batch(ops)
				w.sendEmpty(all[0], target)
				w.sendEmpty(wanSocks[len(wanSocks)-1], target)
				reply()
				w.close()
			})
		}
	}
	// a bounded router queue that is filled up to, but never beyond, its capacity: nothing may be lost.
	// Four datagrams fill the queue of four; the first becomes due alone and leaves; a fifth arrives
	// while three are still waiting; later the queue is filled again.
	for rep := 0; rep < 3; rep++ {
		synctest.Test(t, func(*testing.T) {
			root := rtrDesc{ID: 1, Lo: 0, Hi: 255, Wan: []int{}, Mode: "napt", MapB: "ind", FiltB: "ind", Pairs: [][2]int{}, cidr: "1.2.3.0/24",
				queue: 4, delay: 5 * time.Millisecond}
			hs := []hostDesc{{1, 1, []int{21}}, {2, 1, []int{22}}}
			w := build(tr, rng, []rtrDesc{root}, hs)
			w.bind(1, hs[0], 21, 5001)
			w.bind(2, hs[1], 22, 5002)
			dst := [2]int{22, 5002}
			for round := 0; round < 3+rep; round++ {
				w.sendOne(sendOp{1, dst, 20})
				time.Sleep(time.Millisecond)
				for i := 0; i < 3; i++ {
					w.sendOne(sendOp{1, dst, 30 + i})
				}
				time.Sleep(4*time.Millisecond + 500*time.Microsecond) // the first has left, three are waiting
				synctest.Wait()
				w.sendOne(sendOp{1, dst, 40})
				time.Sleep(20 * time.Millisecond)
				synctest.Wait()
			}
			time.Sleep(200 * time.Millisecond)
			synctest.Wait()
			w.emit(vrt.M{"ev": "flush"})
			w.close()
		})
	}
	t.Logf("events=%d", tr.N)
}
