//go:build verif

package vnet

import (
	"math/rand"
	"net"
	"sync"
	"testing"
	"time"

	"github.com/pion/logging"
	"github.com/pion/transport/v3/internal/vrt"
)

// TestVerifUDPProxy drives vnet.UDPProxy between virtual clients and a real loopback server and
// records what each side sees; judged by specs/proxy/TraceProxy.tla (reported as notes).
func TestVerifUDPProxy(t *testing.T) { //nolint:cyclop,gocognit,maintidx
	tr := vrt.Open()
	defer tr.Close()
	rng := rand.New(rand.NewSource(vrt.Seed())) //nolint:gosec
	runs := vrt.EnvInt("VERIF_RUNS", 4)
	for run := 0; run < runs; run++ {
		server, err := net.ListenUDP("udp4", &net.UDPAddr{IP: net.IPv4(127, 0, 0, 1)})
		if err != nil {
			t.Fatal(err)
		}
		router, err := NewRouter(&RouterConfig{CIDR: "0.0.0.0/0", LoggerFactory: logging.NewDefaultLoggerFactory()})
		if err != nil {
			t.Fatal(err)
		}
		nclients := 2 + run%2
		var nets []*Net
		var socks []net.PacketConn
		for c := 0; c < nclients; c++ {
			nw, _ := NewNet(&NetConfig{StaticIP: net.IPv4(10, 0, 0, byte(11+c)).String()})
			if err := router.AddNet(nw); err != nil {
				t.Fatal(err)
			}
			nets = append(nets, nw)
		}
		if err := router.Start(); err != nil {
			t.Fatal(err)
		}
		proxy, _ := NewProxy(router)
		proxy.mockRealServerAddr = server.LocalAddr().(*net.UDPAddr) //nolint:forcetypeassert
		vserver := &net.UDPAddr{IP: net.IPv4(192, 168, 1, 10), Port: 8000}
		if err := proxy.Proxy(nets[0], vserver); err != nil {
			t.Fatal(err)
		}
		var mu sync.Mutex
		emit := func(m vrt.M) { mu.Lock(); tr.Emit(m); mu.Unlock() }
		emit(vrt.M{"ev": "reset", "clients": nclients})
		// the real server: records (source, id), remembers sources in order of first appearance
		epOf := map[string]int{}
		var epAddr []*net.UDPAddr
		type got struct{ e, id int }
		var srv []got
		var wg sync.WaitGroup
		wg.Add(1)
		go func() {
			defer wg.Done()
			buf := make([]byte, 2000)
			for {
				n, from, err := server.ReadFromUDP(buf)
				if err != nil {
					return
				}
				mu.Lock()
				e, ok := epOf[from.String()]
				if !ok {
					e = len(epAddr) + 1
					epOf[from.String()] = e
					epAddr = append(epAddr, from)
				}
				id := -1
				if n >= 4 {
					id = int(buf[0]) | int(buf[1])<<8 | int(buf[2])<<16
				}
				srv = append(srv, got{e, id})
				mu.Unlock()
			}
		}()
		// the clients: record what they receive
		type cgot struct {
			id         int
			fromServer bool
		}
		cl := make([][]cgot, nclients)
		for c := 0; c < nclients; c++ {
			s, err := nets[c].ListenPacket("udp4", net.IPv4(10, 0, 0, byte(11+c)).String()+":5000")
			if err != nil {
				t.Fatal(err)
			}
			socks = append(socks, s)
			wg.Add(1)
			go func(c int) {
				defer wg.Done()
				buf := make([]byte, 2000)
				for {
					n, from, err := socks[c].ReadFrom(buf)
					if err != nil {
						return
					}
					id := -1
					if n >= 4 {
						id = int(buf[0]) | int(buf[1])<<8 | int(buf[2])<<16
					}
					mu.Lock()
					cl[c] = append(cl[c], cgot{id, from.String() == vserver.String()})
					mu.Unlock()
				}
			}(c)
		}
		mk := func(id, n int) []byte {
			p := make([]byte, n)
			if n >= 4 {
				p[0], p[1], p[2], p[3] = byte(id), byte(id>>8), byte(id>>16), 0x5a
			}

			return p
		}
		nmsg := 0
		settle := func() { time.Sleep(30 * time.Millisecond) }
		flushSrv := func() {
			mu.Lock()
			g := srv
			srv = nil
			mu.Unlock()
			for _, x := range g {
				emit(vrt.M{"ev": "srecv", "e": x.e, "id": x.id})
			}
		}
		flushCl := func() {
			for c := 0; c < nclients; c++ {
				mu.Lock()
				g := cl[c]
				cl[c] = nil
				mu.Unlock()
				for _, x := range g {
					emit(vrt.M{"ev": "crecv", "c": c + 1, "id": x.id, "fromserver": x.fromServer})
				}
			}
		}
		for round := 0; round < 6; round++ {
			// up: clients write (one after the other, so the order of the log is the order of the writes)
			for k := 0; k < 4+rng.Intn(4); k++ {
				c := rng.Intn(nclients)
				n := []int{0, 4, 5, 100, 1200, 1472}[rng.Intn(6)]
				nmsg++
				if rng.Intn(6) == 0 { // injected through Deliver as if c had written it
					if n == 0 {
						n = 4
					}
					src := &net.UDPAddr{IP: net.IPv4(10, 0, 0, byte(11+c)), Port: 5000}
					nn, _ := proxy.Deliver(src, vserver, mk(nmsg, n))
					emit(vrt.M{"ev": "deliver", "c": c + 1, "id": nmsg, "len": n, "n": nn})
				} else {
					emit(vrt.M{"ev": "csend", "c": c + 1, "id": nmsg, "len": n})
					_, _ = socks[c].WriteTo(mk(nmsg, n), vserver)
				}
				time.Sleep(time.Millisecond)
			}
			settle()
			flushSrv()
			// down: the server answers some of the sources it has seen
			mu.Lock()
			eps := append([]*net.UDPAddr(nil), epAddr...)
			mu.Unlock()
			for k := 0; k < 3+rng.Intn(3) && len(eps) > 0; k++ {
				e := rng.Intn(len(eps))
				n := []int{0, 4, 50, 1400}[rng.Intn(4)]
				nmsg++
				emit(vrt.M{"ev": "ssend", "e": e + 1, "id": nmsg, "len": n})
				_, _ = server.WriteToUDP(mk(nmsg, n), eps[e])
				time.Sleep(time.Millisecond)
			}
			settle()
			flushCl()
		}
		emit(vrt.M{"ev": "end"})
		_ = proxy.Close()
		for _, s := range socks {
			_ = s.Close()
		}
		_ = router.Stop()
		_ = server.Close()
		wg.Wait()
	}
	t.Logf("events=%d", tr.N)
}
