//go:build verif

package xor_test

import (
	"encoding/json"
	"math/rand"
	"testing"

	"github.com/pion/transport/v3/internal/vrt"
	"github.com/pion/transport/v3/utils/xor"
)

type xorCase struct {
	La    int    `json:"la"`
	Lb    int    `json:"lb"`
	Oa    int    `json:"oa"`
	Ob    int    `json:"ob"`
	Od    int    `json:"od"`
	Extra int    `json:"extra"`
	Alias string `json:"alias"`
}

const guard = 16

// region allocates a slice of n bytes at offset off (mod 8) inside a guard-padded backing array.
func region(rng *rand.Rand, off, n int) (backing, s []byte) {
	backing = make([]byte, guard+8+n+guard)
	for i := range backing {
		backing[i] = 0xA5
	}
	s = backing[guard+off : guard+off+n : guard+off+n]
	for i := range s {
		switch rng.Intn(6) {
		case 0:
			s[i] = 0
		case 1:
			s[i] = 0xFF
		default:
			s[i] = byte(rng.Intn(256))
		}
	}

	return backing, s
}

func guardsOK(backing []byte, off, n int) bool {
	for i, v := range backing {
		if (i < guard+off || i >= guard+off+n) && v != 0xA5 {
			return false
		}
	}

	return true
}

func ints(b []byte) []int {
	out := make([]int, len(b))
	for i, v := range b {
		out[i] = int(v)
	}

	return out
}

func runCase(tr *vrt.Tracer, rng *rand.Rand, c xorCase) {
	n := c.La
	if c.Lb < n {
		n = c.Lb
	}
	ba, a := region(rng, c.Oa, c.La)
	bb, b := region(rng, c.Ob, c.Lb)
	var bd, dst []byte
	od, ld := c.Od, n+c.Extra
	switch c.Alias {
	case "a":
		bd, dst, od, ld = ba, a, c.Oa, c.La
	case "b":
		bd, dst, od, ld = bb, b, c.Ob, c.Lb
	default:
		bd, dst = region(rng, c.Od, ld)
	}
	m := vrt.M{"ev": "xor", "alias": c.Alias, "a": ints(a), "b": ints(b), "dst": ints(dst)}
	ret := xor.XorBytes(dst, a, b)
	m["n"] = ret
	m["a2"] = ints(a)
	m["b2"] = ints(b)
	m["dst2"] = ints(dst)
	m["guards"] = guardsOK(ba, c.Oa, c.La) && guardsOK(bb, c.Ob, c.Lb) && guardsOK(bd, od, ld)
	tr.Emit(m)
}

// TestVerifXorCases runs every structural case enumerated by TLC (MC_Xor) with seeded contents.
func TestVerifXorCases(t *testing.T) {
	tr := vrt.Open()
	defer tr.Close()
	rng := rand.New(rand.NewSource(vrt.Seed())) //nolint:gosec
	tr.Emit(vrt.M{"ev": "reset"})
	vrt.ReadScenarios(func(line []byte) {
		var c xorCase
		if err := json.Unmarshal(line, &c); err != nil {
			t.Fatal(err)
		}
		runCase(tr, rng, c)
	})
	t.Logf("events=%d", tr.N)
}

// TestVerifXorLong adds long inputs (up to 4096 bytes) with random structure.
func TestVerifXorLong(t *testing.T) {
	tr := vrt.Open()
	defer tr.Close()
	rng := rand.New(rand.NewSource(vrt.Seed())) //nolint:gosec
	tr.Emit(vrt.M{"ev": "reset"})
	n := vrt.EnvInt("VERIF_RUNS", 300)
	for i := 0; i < n; i++ {
		la := rng.Intn(4097)
		lb := la
		switch rng.Intn(3) {
		case 0:
			lb = rng.Intn(4097)
		case 1:
			lb = la + rng.Intn(17) - 8
			if lb < 0 {
				lb = 0
			}
		}
		c := xorCase{La: la, Lb: lb, Oa: rng.Intn(8), Ob: rng.Intn(8), Od: rng.Intn(8), Extra: rng.Intn(20), Alias: []string{"none", "a", "b"}[rng.Intn(3)]}
		runCase(tr, rng, c)
	}
	t.Logf("events=%d", tr.N)
}
