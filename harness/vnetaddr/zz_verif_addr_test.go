//go:build verif

package vnet

import (
	"encoding/json"
	"fmt"
	"math/rand"
	"net"
	"strings"
	"testing"

	"github.com/pion/logging"
	"github.com/pion/transport/v3/internal/vrt"
)

// ---------------------------------------------------------------- host: bind / close / demux

var hostIP = map[int]string{0: "0.0.0.0", 1: "127.0.0.1", 2: "10.0.0.2", 3: "10.0.0.3", 9: "10.0.0.9"} //nolint:gochecknoglobals

func ipID(ip net.IP) int {
	for k, v := range hostIP {
		if ip.Equal(net.ParseIP(v)) {
			return k
		}
	}

	return -1
}

type bindRun struct {
	tr    *vrt.Tracer
	nw    *Net
	conns map[int]net.PacketConn
	stale map[int]net.PacketConn // handles that were closed already
	ids   map[*UDPConn]int
	next  int
}

func newBindRun(tr *vrt.Tracer) *bindRun {
	router, err := NewRouter(&RouterConfig{CIDR: "10.0.0.0/24", LoggerFactory: logging.NewDefaultLoggerFactory()})
	if err != nil {
		panic(err)
	}
	nw, _ := NewNet(&NetConfig{StaticIPs: []string{"10.0.0.2", "10.0.0.3"}})
	if err := router.AddNet(nw); err != nil {
		panic(err)
	}
	tr.Emit(vrt.M{"ev": "reset", "lo": 0, "hi": 255, "host": []int{1, 2, 3}})

	return &bindRun{tr: tr, nw: nw, conns: map[int]net.PacketConn{}, stale: map[int]net.PacketConn{}, ids: map[*UDPConn]int{}}
}

func classify(err error) string {
	switch {
	case err == nil:
		return "ok"
	case strings.Contains(err.Error(), "address already in use"):
		return "inuse"
	case strings.Contains(err.Error(), "can't assign requested address"), strings.Contains(err.Error(), "bind failed"):
		return "noaddr"
	case strings.Contains(err.Error(), "port space exhausted"):
		return "exhausted"
	default:
		return "other:" + err.Error()
	}
}

// bind through one of the four entry points (via 0..3); for Dial the local ip is chosen by the stack.
func (r *bindRun) bind(via, ip, port int) {
	r.next++
	id := r.next
	var c net.PacketConn
	var err error
	laddr := &net.UDPAddr{IP: net.ParseIP(hostIP[ip]), Port: port}
	switch via {
	case 0:
		c, err = r.nw.ListenUDP("udp4", laddr)
	case 1:
		c, err = r.nw.ListenPacket("udp4", fmt.Sprintf("%s:%d", hostIP[ip], port))
	case 2:
		var uc interface{ net.PacketConn }
		u, e := r.nw.DialUDP("udp4", laddr, &net.UDPAddr{IP: net.ParseIP("10.0.0.77"), Port: 999})
		if e == nil {
			uc = u
		}
		c, err = uc, e
	default:
		cc, e := r.nw.Dial("udp4", "10.0.0.77:999")
		if e == nil {
			c = cc.(net.PacketConn) //nolint:forcetypeassert
		}
		err = e
		ip, port = 2, 0 // the first eth0 address, ephemeral port
	}
	m := vrt.M{"ev": "bind", "id": id, "ip": ip, "port": port, "res": classify(err), "got": 0, "via": via}
	if err == nil {
		la := c.LocalAddr().(*net.UDPAddr) //nolint:forcetypeassert
		m["got"] = la.Port
		if ipID(la.IP) != ip {
			m["res"] = fmt.Sprintf("other:bound to %s", la.IP)
		}
		r.conns[id] = c
		r.ids[c.(*UDPConn)] = id //nolint:forcetypeassert
	}
	r.tr.Emit(m)
}

func (r *bindRun) close(id int) {
	if c := r.conns[id]; c != nil {
		_ = c.Close()
		delete(r.conns, id)
		r.stale[id] = c
		r.tr.Emit(vrt.M{"ev": "close", "id": id})
	}
}

// closeStale closes a handle a second time: Close of a closed socket must not affect any other socket.
func (r *bindRun) closeStale() {
	for id, c := range r.stale {
		_ = c.Close()
		r.tr.Emit(vrt.M{"ev": "close", "id": id})

		return
	}
}

// demux asks the host's socket table which open socket an inbound datagram would be handed to.
func (r *bindRun) demux(ip, port int) {
	to := 0
	if c, ok := r.nw.udpConns.find(&net.UDPAddr{IP: net.ParseIP(hostIP[ip]), Port: port}); ok {
		to = r.ids[c]
		if to == 0 {
			to = -1
		}
	}
	r.tr.Emit(vrt.M{"ev": "demux", "ip": ip, "port": port, "to": to})
}

func (r *bindRun) probeAll(ports []int) {
	for _, p := range ports {
		for _, ip := range []int{1, 2, 3} {
			r.demux(ip, p)
		}
	}
}

type addrOp struct {
	Op   string `json:"op"`
	IP   int    `json:"ip"`
	Port int    `json:"port"`
	ID   int    `json:"id"`
}

func realPort(p int) int {
	if p == 0 {
		return 0
	}

	return 7000 + p
}

// TestVerifBindTours replays the transition tours of MC_VNetAddr (host part).
func TestVerifBindTours(t *testing.T) {
	tr := vrt.Open()
	defer tr.Close()
	k := 0
	vrt.ReadScenarios(func(line []byte) {
		var ops []addrOp
		if err := json.Unmarshal(line, &ops); err != nil {
			t.Fatal(err)
		}
		r := newBindRun(tr)
		for i, op := range ops {
			switch op.Op {
			case "B":
				via := (k + i) % 4
				if via == 3 && !(op.IP == 2 && op.Port == 0) {
					via = (k + i) % 3
				}
				r.bind(via, op.IP, realPort(op.Port))
			case "C":
				r.close(op.ID)
			}
			r.probeAll([]int{7007, 7008})
		}
		k++
	})
	t.Logf("tours=%d events=%d", k, tr.N)
}

// TestVerifBindRandom: seeded bind/close histories and ephemeral-port exhaustion.
func TestVerifBindRandom(t *testing.T) {
	tr := vrt.Open()
	defer tr.Close()
	rng := rand.New(rand.NewSource(vrt.Seed())) //nolint:gosec
	runs := vrt.EnvInt("VERIF_RUNS", 30)
	for k := 0; k < runs; k++ {
		r := newBindRun(tr)
		for i := 0; i < 60; i++ {
			if rng.Intn(3) == 0 && len(r.conns) > 0 {
				for id := range r.conns {
					r.close(id)

					break
				}
			} else {
				ip := []int{0, 1, 2, 3, 9}[rng.Intn(5)]
				port := []int{0, 0, 7007, 7008, 7009, 5000, 5999}[rng.Intn(7)]
				via := rng.Intn(4)
				if via == 3 {
					ip, port = 2, 0
				}
				r.bind(via, ip, port)
			}
			if rng.Intn(6) == 0 {
				r.closeStale()
			}
			if rng.Intn(3) == 0 {
				r.probeAll([]int{7007, 7008, 7009, 5000, 5999})
			}
		}
	}
	for _, ip := range []int{1, 2, 0} {
		r := newBindRun(tr)
		r.bind(0, ip, 7007)
		r.close(1)
		r.bind(1, ip, 7007)
		r.closeStale()
		r.probeAll([]int{7007})
		r.bind(0, ip, 7007)
		if ip == 0 {
			r.bind(0, 2, 7007)
		}
		r.probeAll([]int{7007})
	}
	// exhaustion: 1001 ephemeral binds on one address, on the wildcard, and mixed
	for _, ips := range [][]int{{2}, {0}, {2, 3, 1}} {
		r := newBindRun(tr)
		for i := 0; i < 1001*len(ips)+2; i++ {
			r.bind(i%2, ips[i%len(ips)], 0)
		}
		// free a few and bind again
		for id := 5; id < 9; id++ {
			r.close(id)
		}
		for i := 0; i < 5; i++ {
			r.bind(0, ips[0], 0)
		}
	}
	t.Logf("events=%d", tr.N)
}

// ---------------------------------------------------------------- router: address assignment

type nicOp struct {
	Op  string `json:"op"` // Auto | Static
	A   int    `json:"a"`
	IPs []int  `json:"ips"`
}

func lastOctets(nw *Net) []int {
	ifc, err := nw.InterfaceByName("eth0")
	if err != nil {
		return nil
	}
	addrs, _ := ifc.Addrs()
	out := []int{}
	for _, a := range addrs {
		if n, ok := a.(*net.IPNet); ok {
			v4 := n.IP.To4()
			if v4[0] == 10 && v4[1] == 0 && v4[2] == 0 {
				out = append(out, int(v4[3]))
			} else {
				out = append(out, 1000)
			}
		}
	}

	return out
}

type asgRun struct {
	tr     *vrt.Tracer
	router *Router
}

func newAsgRun(tr *vrt.Tracer, cidr string, lo, hi int) *asgRun {
	router, err := NewRouter(&RouterConfig{CIDR: cidr, LoggerFactory: logging.NewDefaultLoggerFactory()})
	if err != nil {
		panic(err)
	}
	tr.Emit(vrt.M{"ev": "reset", "lo": lo, "hi": hi, "host": []int{}})

	return &asgRun{tr: tr, router: router}
}

func (r *asgRun) auto(asRouter bool) {
	var err error
	var got []int
	if asRouter {
		child, e := NewRouter(&RouterConfig{CIDR: "192.168.0.0/24", LoggerFactory: logging.NewDefaultLoggerFactory()})
		if e != nil {
			panic(e)
		}
		err = r.router.AddRouter(child)
		if err == nil {
			ifc, _ := child.getInterface("eth0")
			addrs, _ := ifc.Addrs()
			for _, a := range addrs {
				if n, ok := a.(*net.IPNet); ok {
					got = append(got, int(n.IP.To4()[3]))
				}
			}
		}
	} else {
		nw, _ := NewNet(&NetConfig{})
		err = r.router.AddNet(nw)
		if err == nil {
			got = lastOctets(nw)
		}
	}
	m := vrt.M{"ev": "auto", "res": "ok", "a": -1}
	switch {
	case err != nil:
		m["res"] = "err"
	case len(got) != 1:
		m["res"] = fmt.Sprintf("other:%d addresses", len(got))
	default:
		m["a"] = got[0]
	}
	r.tr.Emit(m)
}

func (r *asgRun) static(ips []int) {
	strs := []string{}
	for _, a := range ips {
		if a >= 300 {
			strs = append(strs, fmt.Sprintf("10.0.1.%d", a-300)) // outside the subnet
		} else {
			strs = append(strs, fmt.Sprintf("10.0.0.%d", a))
		}
	}
	nw, _ := NewNet(&NetConfig{StaticIPs: strs})
	err := r.router.AddNet(nw)
	res := "ok"
	if err != nil {
		res = "err"
	}
	r.tr.Emit(vrt.M{"ev": "static", "ips": ips, "res": res})
}

// TestVerifAssign: tours of the router part on a /29, and seeded mixes of static and automatic
// assignment on a /24 with more than 254 NICs.
func TestVerifAssign(t *testing.T) {
	tr := vrt.Open()
	defer tr.Close()
	rng := rand.New(rand.NewSource(vrt.Seed())) //nolint:gosec
	vrt.ReadScenarios(func(line []byte) {
		var ops []nicOp
		if err := json.Unmarshal(line, &ops); err != nil {
			t.Fatal(err)
		}
		r := newAsgRun(tr, "10.0.0.0/29", 0, 7)
		for _, op := range ops {
			if op.Op == "Auto" {
				r.auto(false)
			} else {
				r.static([]int{op.A})
			}
		}
	})
	runs := vrt.EnvInt("VERIF_RUNS", 12)
	// subnets of different widths, also ones that do not begin at .0
	nets := []struct {
		cidr   string
		lo, hi int
	}{
		{"10.0.0.0/24", 0, 255}, {"10.0.0.0/25", 0, 127}, {"10.0.0.128/25", 128, 255}, {"10.0.0.0/24", 0, 255},
		{"10.0.0.64/26", 64, 127}, {"10.0.0.0/28", 0, 15}, {"10.0.0.8/30", 8, 11},
	}
	for k := 0; k < runs; k++ {
		nt := nets[k%len(nets)]
		r := newAsgRun(tr, nt.cidr, nt.lo, nt.hi)
		statics := []int{1, 2, 3, 254, 253, 100, 101, 50, 200, 255, 0}
		rng.Shuffle(len(statics), func(i, j int) { statics[i], statics[j] = statics[j], statics[i] })
		used := 0
		for i := 0; i < 270; i++ {
			switch {
			case used < len(statics) && rng.Intn(12) == 0:
				if rng.Intn(6) == 0 {
					r.static([]int{300 + rng.Intn(50)})
				} else {
					r.static([]int{statics[used]})
					used++
				}
			default:
				r.auto(rng.Intn(5) == 0)
			}
		}
	}
	t.Logf("events=%d", tr.N)
}
