------------------------------ MODULE MC_Proxy ------------------------------
EXTENDS UDPProxy
Next == \/ \E c \in Clients, len \in {0, 1} : nmsg < MaxMsg /\ CSend(c, nmsg + 1, len)
        \/ \E c \in Clients, n \in {0, 1} : nmsg < MaxMsg /\ Deliver(c, nmsg + 1, 1, n)
        \/ \E e \in 1..2, id \in 1..MaxMsg : SRecv(e, id)
        \/ \E e \in 1..2, len \in {0, 1} : nmsg < MaxMsg /\ SSend(e, nmsg + 1, len)
        \/ \E c \in Clients, id \in 1..MaxMsg : CRecv(c, id, TRUE)
=============================================================================
