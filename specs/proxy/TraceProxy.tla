----------------------------- MODULE TraceProxy -----------------------------
(* reset{clients} | csend{c,id,len} | deliver{c,id,len,n} | srecv{e,id} | ssend{e,id,len}  *)
(* | crecv{c,id,fromserver} | end                                                           *)
EXTENDS UDPProxy, TraceIO
TraceInit == PInit /\ TraceInitL
TReset == IsEv("reset") /\ Consume /\ ep' = [c \in Clients |-> 0] /\ nep' = 0 /\ upq' = [c \in Clients |-> <<>>]
          /\ upseen' = [e \in 1..Cardinality(Clients) |-> <<>>] /\ downq' = [e \in 1..Cardinality(Clients) |-> <<>>]
          /\ downseen' = [c \in Clients |-> <<>>] /\ nmsg' = 0
TCSend == IsEv("csend") /\ Consume /\ CSend(Ev.c, Ev.id, Ev.len)
TDeliver == IsEv("deliver") /\ Consume /\ Deliver(Ev.c, Ev.id, Ev.len, Ev.n)
TSRecv == IsEv("srecv") /\ Consume /\ SRecv(Ev.e, Ev.id)
TSSend == IsEv("ssend") /\ Consume /\ SSend(Ev.e, Ev.id, Ev.len)
TCRecv == IsEv("crecv") /\ Consume /\ CRecv(Ev.c, Ev.id, Ev.fromserver)
TEnd == IsEv("end") /\ Consume /\ Drained /\ UNCHANGED pvars
TraceNext == TReset \/ TCSend \/ TDeliver \/ TSRecv \/ TSSend \/ TCRecv \/ TEnd
TraceSpec == TraceInit /\ [][TraceNext]_<<pvars, l>>
=============================================================================
