------------------------------ MODULE UDPProxy ------------------------------
(* vnet.UDPProxy (vnet/udpproxy.go, udpproxy_direct.go); not one of the listed *)
(* properties.  The proxy owns, inside the virtual network, a socket with the  *)
(* address of a real server.  For every virtual client address that writes to  *)
(* it, it opens one real socket ("endpoint") towards the real server and       *)
(* copies datagrams both ways:                                                 *)
(*   client c -> proxy socket  ==> endpoint of c -> real server                *)
(*   real server -> endpoint of c  ==> proxy socket -> client c                *)
(* so the real server sees one source per virtual client, replies reach only   *)
(* that client and show the server's address, order is kept per client and     *)
(* direction, nothing is duplicated, empty datagrams are not forwarded.        *)
(* Deliver(source c, payload) injects a datagram on c's endpoint as if c had   *)
(* written it (returns 0 when c has no endpoint yet).                          *)
EXTENDS Integers, Sequences, FiniteSets
CONSTANTS Clients, MaxMsg
VARIABLES ep,        \* client -> endpoint id (0: none yet); endpoint ids are handed out 1, 2, ...
          nep,       \* endpoints created so far
          upq,       \* client -> datagrams accepted by the proxy socket, not yet seen by the server
          upseen,    \* endpoint -> sequence of datagram ids the server received from it
          downq,     \* endpoint -> replies the server sent to it, not yet seen by the client
          downseen,  \* client -> sequence of reply ids received
          nmsg       \* ids handed out
pvars == <<ep, nep, upq, upseen, downq, downseen, nmsg>>
PInit == /\ ep = [c \in Clients |-> 0] /\ nep = 0 /\ upq = [c \in Clients |-> <<>>]
         /\ upseen = [e \in 1..Cardinality(Clients) |-> <<>>]
         /\ downq = [e \in 1..Cardinality(Clients) |-> <<>>]
         /\ downseen = [c \in Clients |-> <<>>] /\ nmsg = 0

\* client c writes datagram id (len bytes) to the server's address
CSend(c, id, len) ==
    /\ nmsg' = nmsg + 1 /\ id = nmsg + 1
    /\ upq' = IF len > 0 THEN [upq EXCEPT ![c] = Append(@, id)] ELSE upq     \* empty: dropped
    /\ UNCHANGED <<ep, nep, upseen, downq, downseen>>
\* Deliver with source c: as if c had written it, but only through an existing endpoint
Deliver(c, id, len, n) ==
    /\ nmsg' = nmsg + 1 /\ id = nmsg + 1
    \* (the endpoint exists from the moment the proxy has taken c's first datagram; the model learns its
    \* identity only when the server sees it, so with datagrams of c under way both answers are possible)
    /\ \/ /\ ep[c] = 0 /\ n = 0 /\ UNCHANGED upq
       \/ /\ (ep[c] # 0 \/ upq[c] # <<>>) /\ n = len /\ upq' = [upq EXCEPT ![c] = Append(@, id)]
    /\ UNCHANGED <<ep, nep, upseen, downq, downseen>>
\* the real server receives datagram id from endpoint e
SRecv(e, id) ==
    \E c \in Clients :
       /\ upq[c] # <<>> /\ Head(upq[c]) = id                       \* order per client, exactly once
       /\ IF ep[c] = 0 THEN e = nep + 1 /\ ep' = [ep EXCEPT ![c] = e] /\ nep' = nep + 1   \* a fresh source
                       ELSE e = ep[c] /\ UNCHANGED <<ep, nep>>                          \* always the same one
       /\ upq' = [upq EXCEPT ![c] = Tail(@)]
       /\ upseen' = [upseen EXCEPT ![e] = Append(@, id)]
       /\ UNCHANGED <<downq, downseen, nmsg>>
\* the real server replies to endpoint e
SSend(e, id, len) ==
    /\ e \in 1..nep /\ nmsg' = nmsg + 1 /\ id = nmsg + 1
    /\ downq' = IF len > 0 THEN [downq EXCEPT ![e] = Append(@, id)] ELSE downq
    /\ UNCHANGED <<ep, nep, upq, upseen, downseen>>
\* client c receives reply id showing source `fromServer'
CRecv(c, id, fromServer) ==
    /\ fromServer /\ ep[c] # 0
    /\ downq[ep[c]] # <<>> /\ Head(downq[ep[c]]) = id              \* only replies to its own endpoint, in order
    /\ downq' = [downq EXCEPT ![ep[c]] = Tail(@)]
    /\ downseen' = [downseen EXCEPT ![c] = Append(@, id)]
    /\ UNCHANGED <<ep, nep, upq, upseen, nmsg>>
\* everything has been copied
Drained == (\A c \in Clients : upq[c] = <<>>) /\ (\A e \in 1..nep : downq[e] = <<>>)
----------------------------------------------------------------------------
OneSourcePerClient == \A c1, c2 \in Clients : (c1 # c2 /\ ep[c1] # 0) => ep[c1] # ep[c2]
=============================================================================
