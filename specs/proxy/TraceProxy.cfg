CONSTANTS
  Clients = {1, 2, 3}
  MaxMsg = 0
SPECIFICATION TraceSpec
CONSTRAINT HighWater
POSTCONDITION Verdict
CHECK_DEADLOCK FALSE
