CONSTANTS
  Clients = {1, 2}
  MaxMsg = 5
INIT PInit
NEXT Next
INVARIANTS OneSourcePerClient
CHECK_DEADLOCK FALSE
