CONSTANTS
  Base = 4194304
  Kinds = {"plain", "wrap"}
  Ws = {0, 1, 2, 3, 4}
  Maxs = {4, 7, 8}
INIT Init
NEXT Next
INVARIANTS NoDoubleAccept WinIsAccepted WinComplete LatestAccepted Completeness
VIEW View
