CONSTANTS
  Base = 4194304
  Mode = "exact"
SPECIFICATION TraceSpec
CONSTRAINT HighWater
POSTCONDITION Verdict
INVARIANT NoDoubleAccept
CHECK_DEADLOCK FALSE
