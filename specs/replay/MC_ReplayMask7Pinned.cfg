CONSTANTS
  W = 7
  B = 4
  Max = 12
  MaskRule = "pinned"
INIT Init
NEXT Next
INVARIANTS MaskIsWindow NoDoubleAccept
CHECK_DEADLOCK FALSE
