CONSTANTS
  Base = 4194304
SPECIFICATION TraceSpec
CONSTRAINT HighWater
POSTCONDITION Verdict
CHECK_DEADLOCK FALSE
