CONSTANTS
  Base = 4194304
  Kinds = {"plain", "wrap"}
  Ws = {0, 1, 2, 3, 4, 5}
  Maxs = {4, 7, 8, 9, 11}
INIT Init
NEXT Next
INVARIANTS NoDoubleAccept WinIsAccepted WinComplete LatestAccepted Completeness
VIEW View
