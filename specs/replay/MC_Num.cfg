CONSTANT Base = 4
INIT Init
NEXT Next
