------------------------------ MODULE MC_Num ------------------------------
EXTENDS Num, TLC
ToNat(a) == a[1] * Base * Base + a[2] * Base + a[3]
Top == Base * Base * Base
FromNat(n) == <<n \div (Base * Base), (n \div Base) % Base, n % Base>>
All == 0..(Top - 1)
ASSUME \A x \in All : ToNat(FromNat(x)) = x /\ IsNum(FromNat(x))
ASSUME \A x \in 0..(Base*Base-1) : N(x) = FromNat(x)
ASSUME \A x, y \in All : /\ LT(FromNat(x), FromNat(y)) = (x < y)
                         /\ LE(FromNat(x), FromNat(y)) = (x <= y)
                         /\ Add(FromNat(x), FromNat(y)) = FromNat((x + y) % Top)
                         /\ (y <= x => Sub(FromNat(x), FromNat(y)) = FromNat(x - y))
ASSUME \A x \in All : Half(FromNat(x)) = FromNat(x \div 2)
ASSUME \A m \in 1..(Top \div 2) : \A x, y \in 0..(m-1) :
          SubMod(FromNat(x), FromNat(y), FromNat(m)) = FromNat((x - y) % m)
VARIABLE dummy
Init == dummy = 0
Next == UNCHANGED dummy
=============================================================================
