----------------------------- MODULE MC_Replay -----------------------------
(* Exhaustive model of the exact rule at small constants.  Init leaves the   *)
(* detector unconfigured; Cfg(k, w, m) picks one configuration, so a single  *)
(* TLC run covers every configuration and the dumped state graph carries the *)
(* configuration on its first edge.  Do(n, a) = Check(n) followed by accept  *)
(* iff a and the check succeeded.                                            *)
EXTENDS ReplayDetector, TLC
CONSTANTS Kinds, Ws, Maxs

ToMax == cfg.max[2] * Base + cfg.max[3]
Ns == 0..12
Cfg(k, w, m) == /\ cfg = NoCfg
                /\ (k = "wrap" => m + 1 >= 2 * w /\ m >= 7)
                /\ m >= w
                /\ Configure(k, w, N(m))

Do(n, a) == \E ok, fl \in BOOLEAN :
               /\ n <= ToMax + 1
               /\ (LEmax(N(n)) /\ InU(N(n)) => ok = a)   \* open answers: follow a
               /\ StepExact(N(n), ok, a /\ ok, fl)

Next == \/ \E k \in Kinds, w \in Ws, m \in Maxs : Cfg(k, w, m)
        \/ \E n \in Ns, a \in BOOLEAN : Do(n, a)
Spec == Init /\ [][Next]_vars

\* Completeness: a fresh number inside the window is never refused
Completeness == cfg # NoCfg /\ ~Wrap =>
    \A n \in 0..ToMax : (N(n) \notin accAll /\ (LT(latest, N(n)) \/ LT(Sub(latest, N(n)), WN)))
                          => OkExact(N(n))
View == <<cfg, latest, started, win, accAll>>
=============================================================================
