CONSTANTS
  Base = 4194304
  Mode = "safe"
SPECIFICATION TraceSpec
CONSTRAINT HighWater
POSTCONDITION Verdict
CHECK_DEADLOCK FALSE
