---------------------------- MODULE MC_ReplayOut ----------------------------
(* Generator and sanity model for interleaved histories: two callback slots.  *)
(* Chk(k, n): Check(n), the callback (if the check succeeds) is kept in slot  *)
(* k; Acc(k): the callback in slot k is invoked; Drop(k): it is forgotten.    *)
(* Answers follow the exact rule evaluated at the time of the call.           *)
EXTENDS ReplayDetector, TLC
CONSTANTS Kinds, Ws, Maxs, MaxN
VARIABLES slot          \* slot[k] = -1 (free) or the number whose callback is kept
mvars == <<vars, slot>>
ToMax == cfg.max[2] * Base + cfg.max[3]
Init0 == Init /\ slot = <<-1, -1>>
Cfg(k, w, m) == /\ cfg = NoCfg
                /\ (k = "wrap" => m + 1 >= 2 * w /\ m >= 7)
                /\ m >= w
                /\ Configure(k, w, N(m)) /\ UNCHANGED slot
Chk(k, n) == /\ cfg # NoCfg /\ slot[k] = -1 /\ n <= ToMax + 1
             /\ LET ok == LEmax(N(n)) /\ (InU(N(n)) \/ OkExact(N(n))) IN
                slot' = [slot EXCEPT ![k] = IF ok THEN n ELSE -1]
             /\ UNCHANGED vars
Acc(k) == /\ slot[k] # -1
          /\ Upd(N(slot[k])) /\ dbl' = FALSE /\ UNCHANGED cfg
          /\ slot' = [slot EXCEPT ![k] = -1]
Drop(k) == slot[k] # -1 /\ slot' = [slot EXCEPT ![k] = -1] /\ UNCHANGED vars
Next == \/ \E k \in Kinds, w \in Ws, m \in Maxs : Cfg(k, w, m)
        \/ \E k \in 1..2, n \in 0..MaxN : Chk(k, n)
        \/ \E k \in 1..2 : Acc(k)
        \/ \E k \in 1..2 : Drop(k)
\* the exact rule, applied when the callback runs, keeps C04's promise also for late callbacks
AcceptedRefused == cfg # NoCfg => \A x \in accAll : InU(x) \/ ~OkExact(x)
View == <<cfg, latest, started, win, accAll, slot>>
=============================================================================
