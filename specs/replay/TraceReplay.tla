---------------------------- MODULE TraceReplay ----------------------------
(* Trace validation of recorded Check/accept histories of the real detector. *)
(* Lines:  {"ev":"reset","kind":"plain"|"wrap","W":n,"max":[h,m,l]}           *)
(*         {"ev":"check","s":[h,m,l],"ok":b,"acc":b,"fl":b}                   *)
(* Mode "exact": the C05 rule (StepExact);  "safe": only C04 (StepSafe).      *)
EXTENDS ReplayDetector, TraceIO
CONSTANT Mode

TraceInit == Init /\ TraceInitL

TraceReset == /\ IsEv("reset") /\ Consume
              /\ Configure(Ev.kind, Ev.W, Ev.max)

TraceCheck == /\ IsEv("check") /\ Consume
              /\ IF Mode = "exact" THEN StepExact(Ev.s, Ev.ok, Ev.acc, Ev.fl)
                                   ELSE StepSafe(Ev.s, Ev.ok, Ev.acc, Ev.fl)

TraceNext == TraceReset \/ TraceCheck
TraceSpec == TraceInit /\ [][TraceNext]_<<vars, l>>
=============================================================================
