CONSTANTS
  Base = 4194304
  Kinds = {"plain", "wrap"}
  Ws = {0, 1, 2, 3}
  Maxs = {4, 7}
  MaxN = 8
INIT Init0
NEXT Next
INVARIANTS AcceptedRefused
VIEW View
CHECK_DEADLOCK FALSE
