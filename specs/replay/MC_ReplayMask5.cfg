CONSTANTS
  W = 5
  B = 4
  Max = 12
  MaskRule = "fixed"
INIT Init
NEXT Next
INVARIANTS MaskIsWindow NoDoubleAccept
CHECK_DEADLOCK FALSE
