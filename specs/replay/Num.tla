------------------------------- MODULE Num -------------------------------
(* Unsigned numbers of three limbs <<hi, mid, lo>> in base Base.  TLC's     *)
(* integers are 32 bit, the sequence numbers of the replay detector reach  *)
(* 2^64-1; with Base = 2^22 three limbs give 66 bits.  MC_Num checks these *)
(* operators against plain naturals for Base = 4 (every carry/borrow).     *)
EXTENDS Integers, Sequences
CONSTANT Base
ASSUME Base \in Nat /\ Base >= 2

Zero == <<0, 0, 0>>
One  == <<0, 0, 1>>
\* a natural below Base*Base (and below 2^31) as a limb number
N(n) == <<0, n \div Base, n % Base>>

IsNum(a) == /\ a \in Seq(0..(Base-1)) /\ Len(a) = 3

LT(a, b) == \/ a[1] < b[1]
            \/ a[1] = b[1] /\ a[2] < b[2]
            \/ a[1] = b[1] /\ a[2] = b[2] /\ a[3] < b[3]
LE(a, b) == a = b \/ LT(a, b)

\* a + b modulo Base^3
Add(a, b) == LET lo == a[3] + b[3]
                 mi == a[2] + b[2] + (lo \div Base)
                 hi == a[1] + b[1] + (mi \div Base)
             IN  <<hi % Base, mi % Base, lo % Base>>
\* a - b for LE(b, a)
Sub(a, b) == LET lo == a[3] - b[3]
                 bl == IF lo < 0 THEN 1 ELSE 0
                 mi == a[2] - b[2] - bl
                 bm == IF mi < 0 THEN 1 ELSE 0
                 hi == a[1] - b[1] - bm
             IN  <<hi, mi + bm * Base, lo + bl * Base>>
\* floor(a / 2)
Half(a) == <<a[1] \div 2,
             (a[2] + (a[1] % 2) * Base) \div 2,
             (a[3] + (a[2] % 2) * Base) \div 2>>
\* (a - b) mod m for a, b < m, 2m <= Base^3
SubMod(a, b, m) == IF LE(b, a) THEN Sub(a, b) ELSE Sub(Add(a, m), b)
=============================================================================
