----------------------------- MODULE ReplayMask -----------------------------
(* Implementation-level model of the plain detector's bookkeeping             *)
(* (replaydetector.go + fixedbig.go): a W-bit mask held in words of B bits,   *)
(* bit i = "latest - i has been accepted".  Accepting a newer number shifts   *)
(* the mask left and clears what falls out of the top word; the amount kept   *)
(* in the top word is the msbMask of newFixedBigInt.                          *)
(*   MaskRule = "fixed"  : the top word keeps W mod B bits (all B if 0)       *)
(*   MaskRule = "pinned" : the top word keeps B - W mod B bits (the pinned    *)
(*                         tree): accepted numbers are forgotten after a      *)
(*                         shift whenever W mod B > B/2                       *)
(* TLC checks that the mask always agrees with the set of accepted numbers    *)
(* inside the window (the `win' of ReplayDetector.tla), hence that Check's    *)
(* answer equals the exact rule.                                              *)
EXTENDS Integers, FiniteSets
\* (the @type comments are for Apalache: ReplayMaskInd.tla proves MaskIsWindow inductive; TLC ignores them)
CONSTANTS
    \* @type: Int;
    W,
    \* @type: Int;
    B,
    \* @type: Int;
    Max,
    \* @type: Str;
    MaskRule
VARIABLES
    \* @type: Int;
    latest,
    \* @type: Int -> Bool;
    mask,
    \* @type: Set(Int);
    accepted
vars == <<latest, mask, accepted>>
Words == (W + B - 1) \div B
NBits == IF Words = 0 THEN B ELSE Words * B       \* at least one word is allocated
Keep == IF MaskRule = "fixed" THEN (IF W % B = 0 THEN B ELSE W % B) ELSE B - (W % B)
TopLo == NBits - B                                   \* first bit index of the top word
Init == latest = 0 /\ mask = [i \in 0..(NBits - 1) |-> FALSE] /\ accepted = {}
Bit(i) == i < W /\ mask[i]                            \* Bit() reports 0 beyond n
\* Check(seq): the code's answer
Ok(s) == /\ s <= Max
         /\ IF s <= latest THEN latest - s < W /\ ~Bit(latest - s) ELSE TRUE
\* @type: (Int -> Bool, Int) => (Int -> Bool);
Lsh(m, k) == [i \in 0..(NBits - 1) |->
                 LET v == IF i - k >= 0 THEN m[i - k] ELSE FALSE IN
                 IF i >= TopLo + Keep THEN FALSE ELSE v]         \* top word masked by msbMask
\* @type: (Int -> Bool, Int) => (Int -> Bool);
SetBit(m, i) == IF i < W THEN [m EXCEPT ![i] = TRUE] ELSE m
Accept(s) == /\ Ok(s)
             /\ IF s > latest THEN latest' = s /\ mask' = SetBit(Lsh(mask, s - latest), 0)
                ELSE latest' = latest /\ mask' = SetBit(mask, latest - s)
             /\ accepted' = accepted \cup {s}
Next == \E s \in 0..Max : Accept(s)
\* the mask is exactly the accepted numbers inside the window
MaskIsWindow == \A i \in 0..(W - 1) : (latest - i >= 0) => (Bit(i) <=> (latest - i) \in accepted)
NoDoubleAccept == \A s \in accepted : ~Ok(s)
=============================================================================
