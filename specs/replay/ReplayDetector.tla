--------------------------- MODULE ReplayDetector ---------------------------
(* Sliding-window replay detector (pion/transport replaydetector), plain     *)
(* and wrapping flavour.  One Step = one Check call together with the        *)
(* (optional) invocation of the accept callback it returned:                 *)
(*      s    the sequence number checked (limb number, see Num)              *)
(*      ok   the boolean returned by Check                                   *)
(*      acc  whether the caller invoked accept() before the next Check       *)
(*      fl   the boolean returned by accept() (FALSE when not invoked)       *)
(* StepExact is the acceptance rule of property C05; StepSafe constrains     *)
(* only what property C04 states (no number accepted twice, nothing above    *)
(* the maximum) and is otherwise free.                                       *)
EXTENDS Integers, Sequences, FiniteSets, Num

VARIABLES cfg,      \* [kind |-> "plain"|"wrap", W |-> Nat, max |-> Num] or NoCfg
          latest,   \* newest accepted number (plain: 0 before anything is accepted)
          started,  \* TRUE once accept() has been invoked at least once
          win,      \* accepted numbers that are still inside the window
          accAll,   \* history: accepted numbers that C04 still protects (plain: all;
                    \* wrap: until the newest accepted number has moved half the space ahead)
          dbl       \* history: the last step accepted a number C04 forbids
vars == <<cfg, latest, started, win, accAll, dbl>>

NoCfg == [kind |-> "none", W |-> 0, max |-> Zero]

Wrap   == cfg.kind = "wrap"
M      == Add(cfg.max, One)          \* size of the sequence space
HalfLo == Half(cfg.max)              \* the two distances nearest to half the
HalfHi == Add(HalfLo, One)           \* space; the property leaves them open
WN     == N(cfg.W)

\* distance from x back to y, i.e. how far y is behind x
Back(x, y) == IF Wrap THEN SubMod(x, y, M) ELSE Sub(x, y)

LEmax(s)   == LE(s, cfg.max)
Fresh      == Wrap /\ ~started                          \* wrapping detector, nothing accepted
Ahead(s)   == SubMod(s, latest, M)                       \* wrap only
InU(s)     == Wrap /\ started /\ Ahead(s) \in {HalfLo, HalfHi}
IsNewer(s) == IF Wrap THEN started /\ s # latest /\ LT(Ahead(s), HalfLo)
                      ELSE LT(latest, s)

\* The exact acceptance rule (C05).
OkExact(s) == /\ LEmax(s)
              /\ \/ Fresh
                 \/ IsNewer(s)
                 \/ /\ ~Fresh /\ ~IsNewer(s)
                    /\ s \notin win
                    /\ LT(Back(latest, s), WN)
\* what Check may answer
OkAllowedExact(s, ok) == IF LEmax(s) /\ InU(s) THEN TRUE ELSE ok = OkExact(s)

\* does accepting s make it the newest accepted number
Moves(s)  == Fresh \/ IsNewer(s) \/ InU(s)
Flag(s)   == Moves(s) \/ ~started
NewLatest(s) == IF Moves(s) THEN s ELSE latest
InWin(x, nl) == IF Wrap THEN LT(SubMod(nl, x, M), WN)
                        ELSE LE(x, nl) /\ LT(Sub(nl, x), WN)
Protected(S, nl) == IF Wrap THEN {x \in S : LT(SubMod(nl, x, M), HalfLo)} ELSE S
Upd(s) == /\ latest'  = NewLatest(s)
          /\ win'     = {x \in win \cup {s} : InWin(x, NewLatest(s))}
          /\ started' = TRUE
          /\ accAll'  = Protected(accAll \cup {s}, NewLatest(s))

\* C04: s must not be accepted now
Forbidden(s) == \/ ~LEmax(s)
                \/ s \in accAll

StepExact(s, ok, acc, fl) ==
    /\ cfg # NoCfg
    /\ OkAllowedExact(s, ok)
    /\ acc => ok
    /\ fl = (acc /\ Flag(s))
    /\ dbl' = (acc /\ Forbidden(s))
    /\ IF acc THEN Upd(s) ELSE UNCHANGED <<latest, started, win, accAll>>
    /\ UNCHANGED cfg

\* C04 only.  `latest' follows the definition "newest accepted number"; when the
\* accepted number lies on the half-space boundary either reading is allowed.
StepSafe(s, ok, acc, fl) ==
    /\ cfg # NoCfg
    /\ ok => ~Forbidden(s)
    /\ acc => ok
    /\ dbl' = FALSE
    /\ IF acc
         THEN /\ \/ latest' = NewLatest(s)
                 \/ InU(s) /\ latest' = latest
              /\ started' = TRUE
              /\ accAll'  = Protected(accAll \cup {s}, latest')
              /\ win' = {}
         ELSE UNCHANGED <<latest, started, win, accAll>>
    /\ UNCHANGED cfg

Configure(kind, w, mx) ==
    /\ cfg' = [kind |-> kind, W |-> w, max |-> mx]
    /\ latest' = Zero /\ started' = FALSE /\ win' = {} /\ accAll' = {} /\ dbl' = FALSE

Init == /\ cfg = NoCfg /\ latest = Zero /\ started = FALSE
        /\ win = {} /\ accAll = {} /\ dbl = FALSE

----------------------------------------------------------------------------
\* Properties of the rule itself (checked by TLC on MC_Replay).
NoDoubleAccept == ~dbl
WinIsAccepted  == ~Wrap => win \subseteq accAll
\* everything accepted and still inside the window is remembered
WinComplete == cfg # NoCfg /\ started =>
                  \A x \in accAll : InWin(x, latest) => x \in win
LatestAccepted == started /\ ~(cfg.kind = "plain" /\ latest = Zero) => latest \in accAll
=============================================================================
