--------------------------- MODULE TraceReplayOut ---------------------------
(*  reset{kind,W,max} | chk{tok,s,ok} | acc{tok,fl}                            *)
EXTENDS ReplayOut, TraceIO
TraceInit == OInit /\ TraceInitL
TReset == IsEv("reset") /\ Consume /\ OConfigure(Ev.kind, Ev.W, Ev.max)
TChk == IsEv("chk") /\ Consume /\ CheckOut(Ev.tok, Ev.s, Ev.ok)
TAcc == IsEv("acc") /\ Consume /\ AcceptOut(Ev.tok)
TraceNext == TReset \/ TChk \/ TAcc
TraceSpec == TraceInit /\ [][TraceNext]_<<ovars, l>>
=============================================================================
