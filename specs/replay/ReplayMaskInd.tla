--------------------------- MODULE ReplayMaskInd ---------------------------
(* Inductive invariant for ReplayMask.tla, discharged by Apalache (symbolic,  *)
(* no bound on the length of the history): at the constants of ConstInit the  *)
(* mask agrees with the accepted numbers inside the window in EVERY state     *)
(* that satisfies IndInv, and IndInv is preserved by every step.              *)
(*   apalache-mc check --cinit=ConstInit --init=Init    --inv=IndInv --length=0 ReplayMaskInd.tla *)
(*   apalache-mc check --cinit=ConstInit --init=IndInit --inv=IndInv --length=1 ReplayMaskInd.tla *)
EXTENDS ReplayMask
ConstInit == W = 7 /\ B = 4 /\ Max = 40 /\ MaskRule = "fixed"
ConstInitPinned == W = 7 /\ B = 4 /\ Max = 40 /\ MaskRule = "pinned"
TypeOK == /\ latest \in 0..Max
          /\ mask \in [0..(NBits - 1) -> BOOLEAN]
          /\ accepted \in SUBSET (0..Max)
IndInv == /\ TypeOK
          /\ MaskIsWindow
          /\ \A s \in accepted : s <= latest              \* nothing newer than the head has been accepted
          /\ (latest = 0 \/ latest \in accepted)
IndInit == TypeOK /\ IndInv
=============================================================================
