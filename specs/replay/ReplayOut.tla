----------------------------- MODULE ReplayOut -----------------------------
(* C04 for histories in which accept callbacks are invoked later than the     *)
(* next Check: several successful checks may be outstanding, their callbacks  *)
(* are invoked in any order or never.  Only what C04 states is constrained:   *)
(* once a number has been checked and its callback invoked, a later Check of  *)
(* it is refused (wrapping detector: while the newest accepted number is less *)
(* than half the space ahead), and nothing above the maximum is accepted.     *)
(* (C05 speaks about callbacks invoked before the next check only.)           *)
EXTENDS ReplayDetector
VARIABLE outs          \* outstanding successful checks: set of <<token, number>>
ovars == <<vars, outs>>
OInit == Init /\ outs = {}
OConfigure(kind, w, mx) == Configure(kind, w, mx) /\ outs' = {}
CheckOut(tok, s, ok) ==
    /\ cfg # NoCfg
    /\ ok => ~Forbidden(s)
    /\ outs' = IF ok THEN outs \cup {<<tok, s>>} ELSE outs
    /\ UNCHANGED vars
\* the callback of check `tok' is invoked now: its number becomes an accepted one; `newest accepted'
\* is evaluated now
AcceptOut(tok) ==
    \E p \in outs :
       /\ p[1] = tok /\ outs' = outs \ {p}
       /\ \/ latest' = NewLatest(p[2])
          \/ InU(p[2]) /\ latest' = latest
       /\ started' = TRUE
       /\ accAll' = Protected(accAll \cup {p[2]}, latest')
       /\ win' = {} /\ dbl' = FALSE /\ UNCHANGED cfg
=============================================================================
