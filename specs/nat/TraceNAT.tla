------------------------------ MODULE TraceNAT ------------------------------
(* reset{mode,mapb,filtb,life,ext,pairs,dyn} | tick{t}                          *)
(* out{src,dst,res,ext,intact} | in{src,dst,res,to,intact}                      *)
(* intact: payload and the untranslated address of the chunk are unchanged      *)
EXTENDS NAT, TraceIO
CONSTANT Judge    \* "map": C02 (outbound translation judged, inbound results taken as given)
                  \* "filter": C03 (inbound judged, external addresses taken as given)
TraceInit == NInit /\ TraceInitL
PairFn(ps) == [loc \in {ps[i][1] : i \in 1..Len(ps)} |-> ps[CHOOSE i \in 1..Len(ps) : ps[i][1] = loc][2]]
TReset == /\ IsEv("reset") /\ Consume
          /\ Configure([mode |-> Ev.mode, mapb |-> Ev.mapb, filtb |-> Ev.filtb, life |-> Ev.life,
                        ext |-> {Ev.ext[i] : i \in 1..Len(Ev.ext)}, pairs |-> PairFn(Ev.pairs), dyn |-> Ev.dyn])
TTick == IsEv("tick") /\ Consume /\ Tick(Ev.t)
TOut == /\ IsEv("out") /\ Consume
        /\ IF Judge = "map" THEN Ev.intact /\ Outbound(Ev.src, Ev.dst, Ev.res, Ev.ext)
                          ELSE OutboundGiven(Ev.src, Ev.dst, Ev.res, Ev.ext)
TIn == /\ IsEv("in") /\ Consume
       /\ IF Judge = "filter" THEN Ev.intact /\ Inbound(Ev.src, Ev.dst, Ev.res, Ev.to)
                             ELSE UNCHANGED nvars
TraceNext == TReset \/ TTick \/ TOut \/ TIn
TraceSpec == TraceInit /\ [][TraceNext]_<<nvars, l>>
=============================================================================
