--------------------------------- MODULE NAT ---------------------------------
(* vnet network address translator (C02 mapping, C03 filtering), RFC 4787.    *)
(* Addresses are <<ip, port>> with small integer ips.  Time in ms.            *)
(*   cfg = [mode: "napt"|"1to1", mapb, filtb: "ind"|"addr"|"addrport",        *)
(*          life, ext: set of external ips, pairs: function local ip -> ext   *)
(*          ip (1:1 mode), dyn: size of the dynamic port range]               *)
(* maps: key -> [ext, perms, last]   key = <<src, bound part of dst>>         *)
(* owner: ext address -> key of the mapping that was given it last            *)
EXTENDS Integers, Sequences, FiniteSets, TLC
VARIABLES cfg, maps, owner, now
nvars == <<cfg, maps, owner, now>>

NoCfg == [mode |-> "none"]
\* (the tables start with one dead sentinel entry so that they are functions with non-integer domains)
Sentinel == <<<<0, 0>>, <<0, 0, 0>>>>
Maps0 == (Sentinel :> [ext |-> <<0, 0>>, perms |-> {}, last |-> -100000000])
Owner0 == (<<0, 0>> :> Sentinel)
NInit == cfg = NoCfg /\ maps = Maps0 /\ owner = Owner0 /\ now = 0

Part(b, a) == CASE b = "ind" -> <<>> [] b = "addr" -> <<a[1]>> [] b = "addrport" -> a
Key(src, dst) == <<src, Part(cfg.mapb, dst)>>
\* a mapping is alive for less than a lifetime after its last outbound use; at exactly one
\* lifetime both readings are accepted
Alive(m)  == now - m.last < cfg.life
Dead(m)   == now - m.last > cfg.life
MayLive(m) == ~Dead(m)
MayDie(m)  == ~Alive(m)
\* total lookups (the sentinel stands for `no entry')
M(k) == IF k \in DOMAIN maps THEN maps[k] ELSE maps[Sentinel]
Own(e) == IF e \in DOMAIN owner THEN owner[e] ELSE Sentinel
Has(k) == k \in DOMAIN maps /\ k # Sentinel
HeldLive(e) == Has(Own(e)) /\ M(Own(e)).ext = e /\ Alive(M(Own(e)))
NLive == Cardinality({k \in DOMAIN maps : Alive(maps[k])})
ValidExt(e) == e[1] \in cfg.ext /\ e[2] >= 1 /\ e[2] <= 65535

Configure(c) == cfg' = c /\ maps' = Maps0 /\ owner' = Owner0 /\ now' = 0
\* time passes; entries that are certainly dead are forgotten (keeps the tables small)
\* (forgetting is an optimisation only - dead entries are ignored everywhere - so it is done once per
\* lifetime-sized period rather than at every step)
Period == IF cfg.mode = "napt" /\ cfg.life > 0 THEN cfg.life ELSE 1
Tick(t) == /\ t >= now /\ now' = t /\ UNCHANGED cfg
           /\ IF t \div Period = now \div Period THEN UNCHANGED <<maps, owner>>
              ELSE LET keep == {x \in DOMAIN maps : x = Sentinel \/ t - maps[x].last <= cfg.life} IN
                   /\ maps' = [k \in keep |-> maps[k]]
                   /\ owner' = [e \in {x \in DOMAIN owner : owner[x] \in keep} |-> owner[e]]

Put(f, k, v) == (k :> v) @@ f        \* (TLC evaluates @@ without looking up every entry)

\* Outbound datagram src -> dst.  res = "ok" with the translated source e, or "drop".
Outbound(src, dst, res, e) ==
    /\ UNCHANGED <<cfg, now>>
    /\ IF cfg.mode = "1to1" THEN
            /\ UNCHANGED <<maps, owner>>
            /\ IF src[1] \in DOMAIN cfg.pairs THEN res = "ok" /\ e = <<cfg.pairs[src[1]], src[2]>>
                                              ELSE res = "drop"
       ELSE LET k == Key(src, dst)
                fk == Part(cfg.filtb, dst)
            IN
            \/ /\ Has(k) /\ MayLive(M(k))                         \* same key: same external address, refreshed
               /\ res = "ok" /\ e = M(k).ext
               /\ maps' = Put(maps, k, [ext |-> e, perms |-> M(k).perms \cup {fk}, last |-> now])
               /\ UNCHANGED owner
            \/ /\ (~Has(k) \/ MayDie(M(k)))                       \* new mapping: a fresh, valid, unheld address
               /\ res = "ok" /\ ValidExt(e) /\ ~HeldLive(e)
               \* whoever held e before is dead now (matters only at exactly one lifetime)
               /\ LET old == IF Own(e) # k THEN {Own(e)} \ {Sentinel} ELSE {}
                      rest == IF old = {} THEN maps ELSE [x \in DOMAIN maps \ old |-> maps[x]]
                  IN  maps' = Put(rest, k, [ext |-> e, perms |-> {fk}, last |-> now])
               /\ owner' = Put(owner, e, k)
            \/ /\ (~Has(k) \/ MayDie(M(k)))                       \* nothing left to allocate
               /\ res = "drop" /\ NLive >= cfg.dyn
               /\ UNCHANGED <<maps, owner>>

\* Outbound step whose external address is taken as given (used when only filtering is judged)
OutboundGiven(src, dst, res, e) ==
    /\ UNCHANGED <<cfg, now>>
    /\ IF cfg.mode = "1to1" \/ res # "ok" THEN UNCHANGED <<maps, owner>>
       ELSE LET k == Key(src, dst)
                fk == Part(cfg.filtb, dst)
            IN IF Has(k) /\ MayLive(M(k)) /\ M(k).ext = e
                 THEN /\ maps' = Put(maps, k, [ext |-> e, perms |-> M(k).perms \cup {fk}, last |-> now])
                      /\ UNCHANGED owner
                 ELSE /\ LET old == IF Own(e) # k THEN {Own(e)} \ {Sentinel} ELSE {}
                             rest == IF old = {} THEN maps ELSE [x \in DOMAIN maps \ old |-> maps[x]]
                         IN  maps' = Put(rest, k, [ext |-> e, perms |-> {fk}, last |-> now])
                      /\ owner' = Put(owner, e, k)

\* Inbound datagram from remote src to external address dst.
\* res = "ok" forwarded to local address `to', or "refused".  Never changes the state.
Inbound(src, dst, res, to) ==
    /\ UNCHANGED nvars
    /\ IF cfg.mode = "1to1" THEN
            LET locs == {l \in DOMAIN cfg.pairs : cfg.pairs[l] = dst[1]} IN
            IF locs # {} THEN res = "ok" /\ to[2] = dst[2] /\ to[1] \in locs ELSE res = "refused"
       ELSE LET fk == Part(cfg.filtb, src)
                has == Has(Own(dst)) /\ M(Own(dst)).ext = dst
                m == M(Own(dst))
            IN
            \/ /\ has /\ MayLive(m) /\ fk \in m.perms
               /\ res = "ok" /\ to = Own(dst)[1]                 \* exactly the endpoint that created the mapping
            \/ /\ ~(has /\ Alive(m) /\ fk \in m.perms)
               /\ res = "refused"
=============================================================================
