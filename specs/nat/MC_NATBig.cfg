CONSTANTS
  MaxNow = 4
  MaxOps = 4
INIT Init
NEXT Next
INVARIANTS ExtInjective ExtValid OwnerConsistent
CHECK_DEADLOCK FALSE
