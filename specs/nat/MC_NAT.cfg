CONSTANTS
  MaxNow = 3
  MaxOps = 3
INIT Init
NEXT Next
INVARIANTS ExtInjective ExtValid OwnerConsistent
CHECK_DEADLOCK FALSE
