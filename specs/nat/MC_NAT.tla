------------------------------- MODULE MC_NAT -------------------------------
(* Exhaustive exploration of NAT.tla at small constants: two internal         *)
(* endpoints, three remotes (two share an ip), lifetime 2 ticks, three        *)
(* external ports.  Cfg picks the behaviours; O(i,r) / I(r,e) / T are the     *)
(* datagrams and the clock.  The external port is the lowest free one.        *)
EXTENDS NAT
CONSTANTS MaxNow, MaxOps
VARIABLE nops
vars == <<nvars, nops>>
Init == NInit /\ nops = 0
Internal == {<<10, 1>>, <<11, 1>>}
Remote == {<<20, 1>>, <<20, 2>>, <<21, 1>>}
ExtIP == 1
Ports == 1..3
Beh == {"ind", "addr", "addrport"}
Cfg(mb, fb) == cfg = NoCfg /\ UNCHANGED nops /\ Configure([mode |-> "napt", mapb |-> mb, filtb |-> fb, life |-> 2,
                                         ext |-> {ExtIP}, pairs |-> <<>>, dyn |-> 3])
Cfg1 == cfg = NoCfg /\ UNCHANGED nops /\ Configure([mode |-> "1to1", mapb |-> "ind", filtb |-> "ind", life |-> 0,
                                  ext |-> {1, 2}, pairs |-> (10 :> 1) @@ (11 :> 2), dyn |-> 0])
Free == {p \in Ports : ~HeldLive(<<ExtIP, p>>)}
Lowest == IF Free = {} THEN 1 ELSE CHOOSE p \in Free : \A q \in Free : p <= q
O(i, r) == /\ cfg # NoCfg /\ nops < MaxOps /\ nops' = nops + 1
           /\ \E res \in {"ok", "drop"}, e \in {<<1, 1>>, <<1, 2>>, <<1, 3>>, <<2, 1>>} :
                 /\ (cfg.mode = "napt" /\ res = "ok" /\ ~(Has(Key(i, r)) /\ Alive(M(Key(i, r))))) => e = <<ExtIP, Lowest>>
                 /\ Outbound(i, r, res, e)
I(r, e) == /\ cfg # NoCfg /\ nops < MaxOps /\ nops' = nops + 1
           /\ \E res \in {"ok", "refused"}, to \in Internal \cup {<<10, e[2]>>, <<11, e[2]>>} : Inbound(r, e, res, to)
T == cfg # NoCfg /\ now < MaxNow /\ Tick(now + 1) /\ UNCHANGED nops
Next == \/ \E mb \in Beh, fb \in Beh : Cfg(mb, fb)
        \/ Cfg1
        \/ \E i \in Internal, r \in Remote : O(i, r)
        \/ \E r \in Remote, e \in {<<1, 1>>, <<1, 2>>, <<1, 3>>, <<2, 1>>} : I(r, e)
        \/ T
\* C02: an external address is never held by two live mappings
ExtInjective == cfg # NoCfg => \A k1, k2 \in DOMAIN maps :
    (k1 # k2 /\ Alive(maps[k1]) /\ Alive(maps[k2])) => maps[k1].ext # maps[k2].ext
ExtValid == cfg # NoCfg => \A k \in DOMAIN maps \ {Sentinel} : maps[k].ext[1] \in cfg.ext
OwnerConsistent == cfg # NoCfg => \A k \in DOMAIN maps : maps[k].ext \in DOMAIN owner
=============================================================================
