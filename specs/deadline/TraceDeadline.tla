---------------------------- MODULE TraceDeadline ----------------------------
(* Validates histories recorded from the real deadline.Deadline.              *)
(*   mode "fake": the runtime timer is a harness-controlled fake, so dispatch *)
(*                and callback execution are explicit events;                 *)
(*   mode "real": real time.AfterFunc inside a synctest bubble, callbacks     *)
(*                run as soon as the timer expires.                           *)
(* Every line carries the observables after the step: now, closed, err,       *)
(* chan (number of Done-channel replacements seen), dl (Deadline(), 0 = none) *)
EXTENDS Deadline, TraceIO
VARIABLE mode
tvars == <<dvars, mode>>

Obs == /\ now' = Ev.now /\ closed' = Ev.closed /\ Ev.err = Ev.closed
       /\ chan' = Ev.chan /\ lastSet' = Ev.dl

TraceInit == DInit /\ mode = "fake" /\ TraceInitL
TReset == /\ IsEv("reset") /\ Consume /\ mode' = Ev.mode
          /\ now' = 1 /\ lastSet' = 0 /\ armed' = FALSE /\ armedAt' = 0
          /\ infl' = 0 /\ freshIn' = FALSE /\ closed' = FALSE /\ chan' = 0
TSet == IsEv("set") /\ Consume /\ Set(Ev.t) /\ Obs /\ UNCHANGED mode
TAdv == /\ IsEv("adv") /\ Consume /\ UNCHANGED mode
        /\ IF mode = "real" THEN AdvanceSettled(Ev.d) ELSE Advance(Ev.d)
        /\ Obs
TDispatch == /\ IsEv("dispatch") /\ Consume /\ UNCHANGED mode
             /\ IF Ev.did THEN Dispatch \/ StaleDispatch
                          ELSE ~(armed /\ now >= armedAt) /\ UNCHANGED dvars
             /\ Obs
TRun == /\ IsEv("run") /\ Consume /\ UNCHANGED mode
        /\ IF Ev.did THEN Run ELSE UNCHANGED dvars
        /\ Obs
TraceNext == TReset \/ TSet \/ TAdv \/ TDispatch \/ TRun
TraceSpec == TraceInit /\ [][TraceNext]_<<tvars, l>>
=============================================================================
