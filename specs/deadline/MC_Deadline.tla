----------------------------- MODULE MC_Deadline -----------------------------
EXTENDS Deadline, TLC
CONSTANTS MaxNow, MaxInfl, MaxChan
\* S(k): "zero" | "past" | "now" | +1 | +2 relative to the current time
S(k) == chan < MaxChan /\ Set(CASE k = "zero" -> 0
              [] k = "past" -> now                 \* an absolute time that has passed (ticks start at 1)
              [] k = "p1" -> now + 1
              [] k = "p2" -> now + 2)
A    == now < MaxNow /\ Advance(1)
D    == infl < MaxInfl /\ Dispatch
R    == Run
Next == (\E k \in {"zero", "past", "p1", "p2"} : S(k)) \/ A \/ D \/ R
MCInit == DInit
Spec == MCInit /\ [][Next]_dvars
=============================================================================
