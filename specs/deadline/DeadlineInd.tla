---------------------------- MODULE DeadlineInd ----------------------------
(* Inductive invariant for Deadline.tla, discharged by Apalache (symbolic):   *)
(* no bound on the clock, on the times given to Set, on the number of Set     *)
(* calls, on the callbacks in flight or on the length of the history.         *)
(* MC_Deadline (TLC) covers now <= MaxNow, infl <= MaxInfl, chan <= MaxChan;  *)
(* this module removes those bounds for the three C09 invariants.             *)
(*   apalache-mc check --init=DInit   --next=IndNext --inv=IndInv --length=0 DeadlineInd.tla  *)
(*   apalache-mc check --init=IndInit --next=IndNext --inv=IndInv --length=1 DeadlineInd.tla  *)
(*   apalache-mc check --init=IndInit --next=IndNext --inv=C09    --length=0 DeadlineInd.tla  *)
(* and, as a vacuity guard, the same step with a Run that lets a stale        *)
(* callback signal Done (the classic defect of a resettable timer) must fail: *)
(*   apalache-mc check --init=IndInit --next=BadNext --inv=IndInv --length=1 DeadlineInd.tla  *)
EXTENDS Deadline

TypeOK == /\ now >= 1 /\ lastSet >= 0 /\ armedAt >= 0 /\ infl >= 0 /\ chan >= 0
          /\ armed \in BOOLEAN /\ freshIn \in BOOLEAN /\ closed \in BOOLEAN

C09 == NeverEarly /\ FiresWhenDue /\ ArmedIsLatest

\* what has to be known about the callbacks in flight to make C09 inductive
IndInv == /\ TypeOK
          /\ C09
          /\ armed => lastSet > 0
          /\ freshIn => /\ infl > 0 /\ ~armed /\ ~closed
                        /\ lastSet # 0 /\ lastSet <= now
          /\ (lastSet # 0 /\ ~armed /\ ~closed) => freshIn     \* an unsignalled, unarmed deadline has its callback under way

IndInit == /\ now \in Nat /\ lastSet \in Nat /\ armedAt \in Nat /\ infl \in Nat /\ chan \in Nat
           /\ armed \in BOOLEAN /\ freshIn \in BOOLEAN /\ closed \in BOOLEAN
           /\ IndInv

IndNext == \/ \E t \in Nat : Set(t)
           \/ \E d \in Nat : d >= 1 /\ Advance(d)
           \/ \E d \in Nat : d >= 1 /\ AdvanceSettled(d) /\ infl = 0
           \/ Dispatch
           \/ StaleDispatch
           \/ Run

\* a callback that does not check whether a Set happened since its dispatch
BadRun == /\ infl > 0
          /\ infl' = infl - 1
          /\ closed' = TRUE /\ freshIn' = FALSE
          /\ UNCHANGED <<now, lastSet, armed, armedAt, chan>>
BadNext == IndNext \/ BadRun
=============================================================================
