CONSTANTS
  MaxNow = 6
  MaxInfl = 3
  MaxChan = 3
INIT MCInit
NEXT Next
INVARIANTS NeverEarly FiresWhenDue ArmedIsLatest
CHECK_DEADLOCK FALSE
