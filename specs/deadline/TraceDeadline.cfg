SPECIFICATION TraceSpec
CONSTRAINT HighWater
POSTCONDITION Verdict
INVARIANTS NeverEarly FiresWhenDue
CHECK_DEADLOCK FALSE
