------------------------------ MODULE Deadline ------------------------------
(* deadline.Deadline (C09): a resettable deadline with a Done channel.        *)
(* The Go runtime's part is explicit: an armed timer is DISPATCHED once its   *)
(* time has come (from then on Stop() reports false) and the dispatched       *)
(* callback RUNS later, possibly after further Set calls.  A callback is      *)
(* `fresh' while no Set has happened since its dispatch; only a fresh         *)
(* callback may signal Done.                                                  *)
(*                                                                            *)
(* Observables after every step: closed (Done closed / Err = exceeded),       *)
(* chan (identity of the Done channel, counts replacements), lastSet          *)
(* (what Deadline() reports; 0 = zero time).                                  *)
EXTENDS Integers

\* (the @type comments are for Apalache: DeadlineInd.tla proves the C09 invariants inductive without
\* a bound on time, on the number of Set calls or on the callbacks in flight; TLC ignores them)
VARIABLES
    \* @type: Int;
    now,       \* current time (ticks)
    \* @type: Int;
    lastSet,   \* time given to the most recent Set, 0 = zero time / never set
    \* @type: Bool;
    armed,     \* the runtime timer is armed (not yet dispatched)
    \* @type: Int;
    armedAt,   \* its expiry
    \* @type: Int;
    infl,      \* number of dispatched callbacks that have not run yet
    \* @type: Bool;
    freshIn,   \* one of them was dispatched after the latest Set
    \* @type: Bool;
    closed,    \* the current Done channel is closed
    \* @type: Int;
    chan       \* number of times the Done channel has been replaced
dvars == <<now, lastSet, armed, armedAt, infl, freshIn, closed, chan>>

DInit == /\ now = 1 /\ lastSet = 0 /\ armed = FALSE /\ armedAt = 0
         /\ infl = 0 /\ freshIn = FALSE /\ closed = FALSE /\ chan = 0

\* Set(t): t = 0 is the zero time (cancel), otherwise an absolute time (t >= 1)
Set(t) ==
    /\ lastSet' = t
    /\ freshIn' = FALSE                       \* every outstanding callback is stale now
    /\ chan' = IF closed THEN chan + 1 ELSE chan
    /\ IF t = 0 THEN closed' = FALSE /\ armed' = FALSE /\ UNCHANGED armedAt
       ELSE IF t <= now THEN closed' = TRUE /\ armed' = FALSE /\ UNCHANGED armedAt
       ELSE closed' = FALSE /\ armed' = TRUE /\ armedAt' = t
    /\ UNCHANGED <<now, infl>>

Advance(d) == now' = now + d /\ UNCHANGED <<lastSet, armed, armedAt, infl, freshIn, closed, chan>>

\* the runtime dispatches the expired timer
Dispatch == /\ armed /\ now >= armedAt
            /\ armed' = FALSE /\ infl' = infl + 1 /\ freshIn' = TRUE
            /\ UNCHANGED <<now, lastSet, armedAt, closed, chan>>

\* a dispatch the specification did not expect (a timer the implementation left armed although
\* the latest Set cancelled or replaced it): its callback is stale by definition
StaleDispatch == /\ ~(armed /\ now >= armedAt)
                 /\ infl' = infl + 1
                 /\ UNCHANGED <<now, lastSet, armed, armedAt, freshIn, closed, chan>>

\* one dispatched callback runs.  The callbacks are indistinguishable; if a fresh one is among
\* them Done may be signalled by any of them and must be once the last one has run.
Run == /\ infl > 0
       /\ infl' = infl - 1
       /\ IF ~freshIn THEN UNCHANGED <<closed, freshIn>>
          ELSE \/ closed' = TRUE /\ freshIn' = FALSE
               \/ infl > 1 /\ UNCHANGED <<closed, freshIn>>
       /\ UNCHANGED <<now, lastSet, armed, armedAt, chan>>

\* Advance with the real runtime timer: the expired timer is dispatched and its callback has run
\* by the time the harness observes (synctest.Wait), so the three steps appear as one.
AdvanceSettled(d) ==
    /\ now' = now + d
    /\ IF armed /\ now + d >= armedAt
         THEN armed' = FALSE /\ closed' = TRUE
         ELSE UNCHANGED <<armed, closed>>
    /\ UNCHANGED <<lastSet, armedAt, infl, freshIn, chan>>

-----------------------------------------------------------------------------
\* C09 as invariants of this specification
NeverEarly == closed => lastSet # 0 /\ lastSet <= now
FiresWhenDue == (lastSet # 0 /\ lastSet <= now /\ ~armed /\ infl = 0) => closed
ArmedIsLatest == armed => armedAt = lastSet /\ ~closed
=============================================================================
