------------------------------ MODULE TraceIO ------------------------------
(* Shared plumbing of the trace specifications: the recorded NDJSON file, the *)
(* position variable `l', and acceptance by high-water mark.  A trace spec    *)
(* EXTENDS this module, conjoins TraceInitL to its Init, uses IsEv / Consume  *)
(* in its actions and is run with                                             *)
(*     CONSTRAINT HighWater   POSTCONDITION Verdict   CHECK_DEADLOCK FALSE    *)
(* under -workers 1.  Verdict prints <<"HW", consumed, Len(Trace)>>; the      *)
(* driver accepts iff consumed = Len(Trace) and TLC reported no error.        *)
EXTENDS Integers, Sequences, TLC, Json, IOUtils
VARIABLE l                    \* index of the next line to consume
Trace == ndJsonDeserialize(IOEnv.TRACE)
TraceInitL == l = 1 /\ TLCSet(1, 1)
More  == l <= Len(Trace)
Ev    == Trace[l]
IsEv(name) == More /\ Ev.ev = name
Consume == l' = l + 1
HighWater == TLCSet(1, IF TLCGet(1) < l THEN l ELSE TLCGet(1))
Verdict == PrintT(<<"HW", TLCGet(1) - 1, Len(Trace)>>)
Has(r, f) == f \in DOMAIN r
=============================================================================
