------------------------------ MODULE VNetAddr ------------------------------
(* vnet address management (C13).                                             *)
(* Part 1, router: NICs get interface addresses, statically or automatically. *)
(*   An automatic assignment yields an error or an address inside the subnet  *)
(*   that no NIC holds; a static address outside the subnet is an error.      *)
(* Part 2, host: UDP sockets are bound to (ip, port); ip 0 is the wildcard.   *)
(*   A bind succeeds exactly when the ip is the wildcard, loopback or one of  *)
(*   the host's addresses and no open socket covers (ip, port); port 0 picks  *)
(*   a free port of the ephemeral range or fails when none is free; Close     *)
(*   frees; an inbound datagram goes to the open socket covering its          *)
(*   destination.                                                             *)
EXTENDS Integers, FiniteSets
CONSTANTS EphLo, EphHi          \* ephemeral port range (5000..5999)
VARIABLES subnet,   \* set of host numbers inside the router's subnet
          nics,     \* host numbers held by NICs
          hostIPs,  \* addresses of the host under test (loopback included)
          socks     \* open sockets: set of [id, ip, port]
avars == <<subnet, nics, hostIPs, socks>>
AInit == subnet = {} /\ nics = {} /\ hostIPs = {} /\ socks = {}

\* ---- router
AddAuto(res, a) ==
    /\ IF res = "ok" THEN a \in subnet /\ a \notin nics /\ nics' = nics \cup {a}
       ELSE UNCHANGED nics                               \* an error (e.g. exhaustion) assigns nothing
    /\ UNCHANGED <<subnet, hostIPs, socks>>
AddStatic(ips, res) ==
    /\ IF ips \subseteq subnet THEN res = "ok" /\ nics' = nics \cup ips
       ELSE res = "err" /\ nics' \in {nics \cup x : x \in SUBSET (ips \cap subnet)}   \* error; partial effect unspecified
    /\ UNCHANGED <<subnet, hostIPs, socks>>

\* ---- host
Covers(s, ip, port) == s.port = port /\ (s.ip = 0 \/ ip = 0 \/ s.ip = ip)
InUse(ip, port) == \E s \in socks : Covers(s, ip, port)
Bindable(ip) == ip = 0 \/ ip \in hostIPs
FreeEph(ip) == {p \in EphLo..EphHi : ~InUse(ip, p)}
\* Bind(id, ip, port): port 0 asks for an ephemeral port.  res: "ok" (bound to got) | "inuse" | "noaddr" | "exhausted"
Bind(id, ip, port, res, got) ==
    /\ UNCHANGED <<subnet, nics, hostIPs>>
    /\ IF ~Bindable(ip) THEN res = "noaddr" /\ UNCHANGED socks
       ELSE IF port # 0 THEN
              IF InUse(ip, port) THEN res = "inuse" /\ UNCHANGED socks
              ELSE res = "ok" /\ got = port /\ socks' = socks \cup {[id |-> id, ip |-> ip, port |-> port]}
       ELSE IF res = "ok"
              THEN /\ got \in EphLo..EphHi /\ ~InUse(ip, got)      \* some free ephemeral port
                   /\ socks' = socks \cup {[id |-> id, ip |-> ip, port |-> got]}
              ELSE res = "exhausted" /\ FreeEph(ip) = {} /\ UNCHANGED socks   \* fails only when none is free
CloseSock(id) == socks' = {s \in socks : s.id # id} /\ UNCHANGED <<subnet, nics, hostIPs>>
\* which open socket an inbound datagram to (ip, port) is handed to (0 = none); ip is a concrete address
Demux(ip, port, to) ==
    /\ UNCHANGED avars
    /\ LET c == {s \in socks : s.port = port /\ (s.ip = 0 \/ s.ip = ip)} IN
       IF c = {} THEN to = 0 ELSE \E s \in c : to = s.id
\* at most one open socket covers any concrete address (so Demux is well defined)
AtMostOneCovers == \A s1, s2 \in socks : (s1 # s2 /\ s1.port = s2.port) => (s1.ip # 0 /\ s2.ip # 0 /\ s1.ip # s2.ip)
NoDuplicateNIC == TRUE   \* nics is a set: a second holder of an address is rejected by AddAuto's guard
=============================================================================
