CONSTANTS
  EphLo = 5000
  EphHi = 5001
  MaxSocks = 4
  Part = "router"
INIT Init
NEXT Next
INVARIANTS AtMostOneCovers NICsInSubnet
CHECK_DEADLOCK FALSE
