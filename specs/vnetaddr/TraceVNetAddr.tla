---------------------------- MODULE TraceVNetAddr ----------------------------
(* reset{subnet:[..],host:[..]} | auto{res,a} | static{ips,res}                 *)
(* bind{id,ip,port,res,got} | close{id} | demux{ip,port,to}                     *)
EXTENDS VNetAddr, TraceIO
TraceInit == AInit /\ TraceInitL
SetOf(s) == {s[i] : i \in 1..Len(s)}
TReset == /\ IsEv("reset") /\ Consume
          /\ subnet' = Ev.lo..Ev.hi /\ nics' = {} /\ hostIPs' = SetOf(Ev.host) /\ socks' = {}
TAuto == IsEv("auto") /\ Consume /\ AddAuto(Ev.res, Ev.a)
TStatic == IsEv("static") /\ Consume /\ AddStatic(SetOf(Ev.ips), Ev.res)
TBind == IsEv("bind") /\ Consume /\ Bind(Ev.id, Ev.ip, Ev.port, Ev.res, Ev.got)
TClose == IsEv("close") /\ Consume /\ CloseSock(Ev.id)
TDemux == IsEv("demux") /\ Consume /\ Demux(Ev.ip, Ev.port, Ev.to)
TraceNext == TReset \/ TAuto \/ TStatic \/ TBind \/ TClose \/ TDemux
TraceSpec == TraceInit /\ [][TraceNext]_<<avars, l>>
=============================================================================
