----------------------------- MODULE MC_VNetAddr -----------------------------
EXTENDS VNetAddr, TLC
CONSTANTS MaxSocks, Part
VARIABLE nid
vars == <<avars, nid>>
Init == subnet = 1..4 /\ nics = {} /\ hostIPs = {1, 2, 3} /\ socks = {} /\ nid = 0
IPs == {0, 1, 2, 3, 9}      \* wildcard, loopback, two host addresses, a foreign address
Ports == {0, 7, 8}
B(ip, port) == /\ Part = "host" /\ nid < MaxSocks /\ nid' = nid + 1
               /\ \E res \in {"ok", "inuse", "noaddr", "exhausted"}, got \in {7, 8} \cup (EphLo..EphHi) :
                     Bind(nid + 1, ip, port, res, got)
C(id) == Part = "host" /\ (\E s \in socks : s.id = id) /\ CloseSock(id) /\ UNCHANGED nid
Auto == Part = "router" /\ (\E res \in {"ok", "err"}, a \in 0..6 : AddAuto(res, a) /\ (res = "err" => subnet \subseteq nics)) /\ UNCHANGED nid
Static(a) == Part = "router" /\ a \notin nics /\ (\E res \in {"ok", "err"} : AddStatic({a}, res)) /\ UNCHANGED nid
Next == \/ \E ip \in IPs, port \in Ports : B(ip, port)
        \/ \E id \in 1..MaxSocks : C(id)
        \/ Auto
        \/ \E a \in {1, 3, 6} : Static(a)
NICsInSubnet == nics \subseteq subnet
=============================================================================
