CONSTANTS
  EphLo = 5000
  EphHi = 5999
SPECIFICATION TraceSpec
CONSTRAINT HighWater
POSTCONDITION Verdict
CHECK_DEADLOCK FALSE
