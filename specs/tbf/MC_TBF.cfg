CONSTANTS
  Grace = 6
  Lens = {0, 1, 3, 5}
  Gaps = {0, 1, 3, 7}
  Rates = {1, 2}
  Bursts = {2, 4}
  MinRefill = 2
  MaxArr = 4
  MaxChg = 1
  MaxNow = 12
  Lazy = FALSE
  QCap = 7
INIT Init
NEXT Next
INVARIANTS NeverExceeds VbNonNeg QbOK
CHECK_DEADLOCK FALSE
