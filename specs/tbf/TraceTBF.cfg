CONSTANTS
  Grace = 1000
  Slack = 1
SPECIFICATION TraceSpec
CONSTRAINT HighWater
POSTCONDITION Verdict
CHECK_DEADLOCK FALSE
