CONSTANTS
  Grace = 6
  Lens = {0, 1, 3, 5}
  Gaps = {0, 1, 3}
  Rates = {0, 1, 2}
  Bursts = {0, 2, 5}
  MaxDep = 4
  MaxNow = 14
INIT Init
NEXT Next
INVARIANTS OracleExact
CHECK_DEADLOCK FALSE
