-------------------------------- MODULE TBF --------------------------------
(* Token bucket filter (vnet.TokenBucketFilter), property C15.               *)
(*                                                                           *)
(* Conformance automaton.  "Bytes forwarded in every interval [s,t] <=       *)
(* burst + rate*(t-s)" holds for all sub-intervals iff a virtual bucket vb   *)
(* that starts full, refills at the rate, is capped at the burst and is      *)
(* debited by every departure never goes negative.  That turns the           *)
(* quantification over all sub-intervals into a state invariant.             *)
(*                                                                           *)
(* Units: time in ms, bytes; Rate is bytes per ms (bit/s divided by 8000).   *)
(* Run-time changes: a lowered rate/burst keeps counting for Grace ms (the   *)
(* property does not say when a change takes effect); a raised rate or burst *)
(* refills the virtual bucket completely (the most lenient reading).         *)
EXTENDS Integers, Sequences
CONSTANT Grace

VARIABLES q,        \* datagrams accepted and not yet forwarded: <<[id, len]>>
          qb,       \* their total length
          qcap,     \* queue capacity in bytes (<= 0: unlimited)
          rate, burst,      \* configured now
          oldR, oldB,       \* superseded values: sequences of [until, v]
          vb,       \* virtual bucket
          now       \* time of the last event
tvars == <<q, qb, qcap, rate, burst, oldR, oldB, vb, now>>

Max(a, b) == IF a > b THEN a ELSE b
Min(a, b) == IF a < b THEN a ELSE b
MaxOf(cur, olds, after) ==      \* max of cur and the old values still in force after time `after'
    LET F[i \in 0..Len(olds)] ==
          IF i = 0 THEN cur
          ELSE IF olds[i].until > after THEN Max(F[i-1], olds[i].v) ELSE F[i-1]
    IN F[Len(olds)]
Prune(olds, after) == SelectSeq(olds, LAMBDA e : e.until > after)

\* virtual bucket at time t >= now
Cap(t)   == MaxOf(burst, oldB, t - Grace)
EffR(t)  == MaxOf(rate, oldR, now - Grace)       \* lenient: anything relevant during [now, t]
Refilled(t) ==
    LET cap == Cap(t)
        r   == EffR(t)
        dt  == t - now
        need == cap - vb
    IN IF need <= 0 THEN cap      \* also clamps to a lowered burst
       ELSE IF r > 0 /\ dt >= (need + r - 1) \div r THEN cap
       ELSE vb + r * dt

Tick(t) == /\ t >= now /\ now' = t
           /\ oldR' = Prune(oldR, t - Grace) /\ oldB' = Prune(oldB, t - Grace)

TInit(r, b, c) == /\ q = <<>> /\ qb = 0 /\ qcap = c /\ rate = r /\ burst = b
                  /\ oldR = <<>> /\ oldB = <<>> /\ vb = b /\ now = 0

Full(len) == qcap > 0 /\ qb + len >= qcap

\* a datagram is handed in at time t; kept = it was queued (or forwarded), ~kept = discarded
Arrive(id, len, t, kept) ==
    /\ Tick(t) /\ vb' = Refilled(t)
    /\ IF kept THEN q' = Append(q, [id |-> id, len |-> len]) /\ qb' = qb + len
               ELSE Full(len) /\ UNCHANGED <<q, qb>>     \* discarded only when the queue is full
    /\ UNCHANGED <<qcap, rate, burst>>

\* the head of the queue is forwarded at time t
Depart(id, len, t) ==
    /\ q # <<>> /\ Head(q).id = id /\ Head(q).len = len     \* FIFO, unmodified, no duplicate
    /\ Tick(t)
    /\ Refilled(t) >= len                                   \* burst + rate bound
    /\ vb' = Refilled(t) - len
    /\ q' = Tail(q) /\ qb' = qb - len
    /\ UNCHANGED <<qcap, rate, burst>>

SetRate(r, t) ==
    /\ t >= now /\ now' = t
    /\ oldB' = Prune(oldB, t - Grace)
    /\ oldR' = Append(Prune(oldR, t - Grace), [until |-> t, v |-> rate])
    /\ rate' = r
    /\ vb' = IF r > EffR(t) THEN Cap(t) ELSE Refilled(t)
    /\ UNCHANGED <<q, qb, qcap, burst>>
SetBurst(b, t) ==
    /\ t >= now /\ now' = t
    /\ oldR' = Prune(oldR, t - Grace)
    /\ oldB' = Append(Prune(oldB, t - Grace), [until |-> t, v |-> burst])
    /\ burst' = b
    /\ vb' = IF b > Cap(t) THEN b ELSE Refilled(t)
    /\ UNCHANGED <<q, qb, qcap, rate>>
=============================================================================
