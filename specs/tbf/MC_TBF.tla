------------------------------- MODULE MC_TBF -------------------------------
(* The token-bucket algorithm of vnet/tbf.go (lazy refill on arrival, at     *)
(* most every MinRefill ms, capped at the burst; drain while tokens suffice) *)
(* transcribed next to the conformance automaton of TBF.tla.  TLC checks    *)
(* that every departure of the algorithm is a legal Depart of the automaton  *)
(* (the action is simply disabled otherwise, so `Stuck' flags it), FIFO      *)
(* order, and tokens <= vb.                                                  *)
EXTENDS TBF, TLC
CONSTANTS Lens, Gaps, Rates, Bursts, MinRefill, MaxArr, QCap, MaxChg, MaxNow,
          Lazy      \* TRUE: the pinned algorithm (refill only when more than MinRefill ms have elapsed)

VARIABLES tokens, lastRefill, narr, pc, bad, nchg
vars == <<tvars, tokens, lastRefill, narr, pc, bad, nchg>>

Init == /\ \E r \in Rates, b \in Bursts : TInit(r, b, QCap) /\ tokens = Min(b, r * MinRefill)
        /\ lastRefill = 0 /\ narr = 0 /\ pc = "idle" /\ bad = FALSE /\ nchg = 0

\* arrival: refill (if MinRefill has elapsed), push, then drain
Arr(len, gap) ==
    /\ pc = "idle" /\ narr < MaxArr /\ narr' = narr + 1 /\ now + gap <= MaxNow /\ UNCHANGED nchg
    /\ LET t == now + gap
           ref == IF Lazy THEN t - lastRefill > MinRefill ELSE TRUE
       IN /\ tokens' = IF ref THEN Min(burst, tokens + rate * (t - lastRefill)) ELSE tokens
          /\ lastRefill' = IF ref THEN t ELSE lastRefill
          /\ Arrive(narr + 1, len, t, ~Full(len))
    /\ pc' = "drain" /\ UNCHANGED bad
\* drain one datagram; if the automaton refuses the departure the algorithm broke the bound
Drain ==
    /\ pc = "drain"
    /\ IF q # <<>> /\ tokens >= Head(q).len
         THEN /\ tokens' = tokens - Head(q).len
              /\ IF Refilled(now) >= Head(q).len
                   THEN Depart(Head(q).id, Head(q).len, now) /\ UNCHANGED bad
                   ELSE bad' = TRUE /\ UNCHANGED tvars
              /\ UNCHANGED pc
         ELSE pc' = "idle" /\ UNCHANGED <<tvars, tokens, bad>>
    /\ UNCHANGED <<lastRefill, narr, nchg>>
ChgRate(r, gap) == pc = "idle" /\ r # rate /\ nchg < MaxChg /\ nchg' = nchg + 1 /\ now + gap <= MaxNow /\ SetRate(r, now + gap) /\ UNCHANGED <<tokens, lastRefill, narr, pc, bad>>
ChgBurst(b, gap) == pc = "idle" /\ b # burst /\ nchg < MaxChg /\ nchg' = nchg + 1 /\ now + gap <= MaxNow /\ SetBurst(b, now + gap) /\ UNCHANGED <<tokens, lastRefill, narr, pc, bad>>

Next == \/ \E len \in Lens, gap \in Gaps : Arr(len, gap)
        \/ Drain
        \/ \E r \in Rates, gap \in Gaps : ChgRate(r, gap)
        \/ \E b \in Bursts, gap \in Gaps : ChgBurst(b, gap)

NeverExceeds == ~bad
VbNonNeg == vb >= 0
QbOK == qb >= 0 /\ (q = <<>> => qb = 0)
=============================================================================
