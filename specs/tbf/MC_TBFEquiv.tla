---------------------------- MODULE MC_TBFEquiv ----------------------------
(* The oracle of C15 checked against the property's own words.  TBF.tla     *)
(* judges departures with a virtual bucket; the property quantifies over    *)
(* all time intervals.  Here departures of any length happen at any time    *)
(* (nothing is refused: the bucket may go into debt), the history is kept,  *)
(* and TLC checks in every state, for constant rate and burst, that         *)
(*   the virtual bucket of TBF.tla has ever been negative                   *)
(*     <=>  some interval [s,t] of the history carries more than            *)
(*          burst + rate*(t-s) bytes.                                       *)
(* "=>" says the automaton never raises a false alarm, "<=" that it misses  *)
(* no violation.  (With integer departure times the supremum over real      *)
(* intervals is attained between two departure instants.)                   *)
EXTENDS TBF, TLC
CONSTANTS Lens, Gaps, Rates, Bursts, MaxDep, MaxNow
VARIABLES hist,     \* departures so far: <<[t, len]>>
          neg       \* the virtual bucket has been negative
vars == <<tvars, hist, neg>>

Init == /\ \E r \in Rates, b \in Bursts : TInit(r, b, 0)
        /\ hist = <<>> /\ neg = FALSE

Dep(len, gap) ==
    /\ Len(hist) < MaxDep /\ now + gap <= MaxNow
    /\ LET t == now + gap IN
         /\ Tick(t)
         /\ vb' = Refilled(t) - len
         /\ hist' = Append(hist, [t |-> t, len |-> len])
         /\ neg' = (neg \/ Refilled(t) - len < 0)
    /\ UNCHANGED <<q, qb, qcap, rate, burst>>
Next == \E len \in Lens, gap \in Gaps : Dep(len, gap)

Sum(i, j) == LET F[k \in (i-1)..j] == IF k = i - 1 THEN 0 ELSE F[k-1] + hist[k].len IN F[j]
SomeIntervalExceeds ==
    \E i \in 1..Len(hist) : \E j \in i..Len(hist) :
        Sum(i, j) > burst + rate * (hist[j].t - hist[i].t)
OracleExact == neg <=> SomeIntervalExceeds
=============================================================================
