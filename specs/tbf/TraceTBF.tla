------------------------------ MODULE TraceTBF ------------------------------
(* Validates arrival/departure histories recorded (in virtual time) from     *)
(* the real vnet.TokenBucketFilter against the conformance automaton.        *)
(*  {"ev":"reset","rate":bytes/ms,"burst":B,"qcap":C}                         *)
(*  {"ev":"arr","id":i,"len":n,"t":ms,"kept":bool}   handed to the filter     *)
(*  {"ev":"dep","id":i,"len":n,"t":ms,"intact":bool} seen by the next NIC     *)
(*  {"ev":"rate","v":bytes/ms,"t":ms}  {"ev":"burst","v":B,"t":ms}            *)
(* Slack: bytes of tolerance for the implementation's float arithmetic.       *)
EXTENDS TBF, TraceIO
CONSTANT Slack

TraceInit == TInit(0, 0, 0) /\ TraceInitL
TReset == /\ IsEv("reset") /\ Consume
          /\ q' = <<>> /\ qb' = 0 /\ qcap' = Ev.qcap /\ rate' = Ev.rate /\ burst' = Ev.burst
          /\ oldR' = <<>> /\ oldB' = <<>> /\ vb' = Ev.burst + Slack /\ now' = 0
\* kept: the datagram was forwarded by the end of the run (every run ends by letting the queue run empty)
TArr == IsEv("arr") /\ Consume /\ Arrive(Ev.id, Ev.len, Ev.t, Ev.kept)
TDep == IsEv("dep") /\ Consume /\ Ev.intact /\ Depart(Ev.id, Ev.len, Ev.t)
TRate == IsEv("rate") /\ Consume /\ SetRate(Ev.v, Ev.t)
TBurst == IsEv("burst") /\ Consume /\ SetBurst(Ev.v, Ev.t)
TraceNext == TReset \/ TArr \/ TDep \/ TRate \/ TBurst
TraceSpec == TraceInit /\ [][TraceNext]_<<tvars, l>>
=============================================================================
