------------------------------- MODULE MC_VNet -------------------------------
(* Design-level check of VNet.tla on one NAT topology for all 9 NAPT types:   *)
(* root 1.2.3.0/24 (ips 1..254), LAN 2000..2254 behind router 2 (WAN ip 10),  *)
(* LAN host 1 (ip 2001, socket 1 port 5000), WAN hosts 2 (ip 20, socket 2)    *)
(* and 3 (ip 30, socket 3).  Plan: datagram 1: socket 1 -> socket 2;          *)
(* datagram 2: socket 2 replies to the source it was shown; datagram 3:       *)
(* socket 3 (a stranger) sends to the same external address.  Hops and        *)
(* receptions happen in any order; the NAT picks port 49152.                  *)
EXTENDS VNet
VARIABLE shown       \* the source address datagram 1 showed to socket 2
vars == <<vvars, shown>>
Beh == {"ind", "addr", "addrport"}
Topo(mb, fb) == [routers |-> (1 :> [parent |-> 0, lo |-> 1, hi |-> 254, wan |-> <<>>, mode |-> "napt", mapb |-> "ind", filtb |-> "ind", pairs |-> <<>>])
                          @@ (2 :> [parent |-> 1, lo |-> 2000, hi |-> 2254, wan |-> <<10>>, mode |-> "napt", mapb |-> mb, filtb |-> fb, pairs |-> <<>>]),
                 hosts |-> (1 :> [router |-> 2, ips |-> <<2001>>]) @@ (2 :> [router |-> 1, ips |-> <<20>>]) @@ (3 :> [router |-> 1, ips |-> <<30>>])]
Socks == (1 :> [host |-> 1, ip |-> 0, port |-> 5000]) @@ (2 :> [host |-> 2, ip |-> 20, port |-> 6000]) @@ (3 :> [host |-> 3, ip |-> 0, port |-> 7000])
Init == /\ \E mb \in Beh, fb \in Beh : topo = Topo(mb, fb)
        /\ socks = Socks /\ nat = (1 :> Nat0) @@ (2 :> Nat0) /\ flight = <<>> /\ nsent = 0 /\ lastSeq = <<>> /\ shown = <<0, 0>>
S1 == 1 \notin DOMAIN flight /\ Send(1, 1, <<20, 6000>>, 10) /\ UNCHANGED shown
S2 == shown # <<0, 0>> /\ 2 \notin DOMAIN flight /\ Send(2, 2, shown, 10) /\ UNCHANGED shown
S3 == shown # <<0, 0>> /\ 3 \notin DOMAIN flight /\ Send(3, 3, shown, 10) /\ UNCHANGED shown
HopAny == \E id \in DOMAIN flight :
            /\ flight[id].st \in {"at", "inb"}
            /\ LET f == flight[id]
                   src == IF f.via = 0 THEN f.src ELSE <<10, 49152>>
                   dst == IF f.st = "inb" THEN <<2001, 5000>> ELSE f.dst
               IN Hop(f.r, id, src, dst)
            /\ UNCHANGED shown
RecvAny == \E id \in DOMAIN flight :
            /\ flight[id].st = "tohost"
            /\ Recv(flight[id].sock, id, flight[id].src, flight[id].len)
            /\ shown' = IF id = 1 THEN flight[id].src ELSE shown
Next == S1 \/ S2 \/ S3 \/ HopAny \/ RecvAny
AllSettled == {1, 2, 3} \subseteq DOMAIN flight /\ ~ENABLED HopAny /\ ~ENABLED RecvAny
\* C01: a reply to the shown source reaches the original sender's socket; the stranger gets
\* through exactly when the filtering behaviour is endpoint-independent
ReplyReaches == AllSettled => flight[2].st = "done"
StrangerFiltered == AllSettled => ((flight[3].st = "done") = (topo.routers[2].filtb = "ind"))
ShownIsTranslated == shown # <<0, 0>> => shown = <<10, 49152>>
=============================================================================
