CONSTANTS
  Loopback = 999001
INIT Init
NEXT Next
INVARIANTS ReplyReaches StrangerFiltered ShownIsTranslated
CHECK_DEADLOCK FALSE
