CONSTANTS
  Loopback = 999001
SPECIFICATION TraceSpec
CONSTRAINT HighWater
POSTCONDITION Verdict
CHECK_DEADLOCK FALSE
