-------------------------------- MODULE VNet --------------------------------
(* The virtual network (C01): routers in a tree, hosts with UDP sockets,      *)
(* NAT on every non-root router.  A datagram is followed hop by hop:          *)
(*   Send   a socket writes datagram id to dst                                *)
(*   Hop    router r takes the datagram from its queue (observed src/dst)     *)
(*   Recv   a socket returns it from ReadFrom (observed shown source)         *)
(*   Flush  every queue has drained                                           *)
(* After each Hop the specification knows where the datagram must go next     *)
(* (next router, a host socket, or nowhere) and what its addresses must be.   *)
(* Addresses are <<ip, port>>, ips are integers; NAT lifetimes are longer     *)
(* than a run (expiry is C02/C03's subject).                                  *)
(*                                                                            *)
(* topo = [routers: id -> [parent, lo, hi, wan (seq of ips), mode, mapb,      *)
(*                         filtb, pairs (local ip -> wan ip)],                *)
(*         hosts:   id -> [router, ips (seq; first = primary)]]               *)
(* socks: sock id -> [host, ip (0 = wildcard), port]                          *)
EXTENDS Integers, Sequences, FiniteSets, TLC
CONSTANTS Loopback      \* the ip of 127.0.0.1
VARIABLES topo, socks, nat, flight, nsent, lastSeq
vvars == <<topo, socks, nat, flight, nsent, lastSeq>>

VInit == /\ topo = [routers |-> <<>>, hosts |-> <<>>] /\ socks = <<>> /\ nat = <<>>
         /\ flight = <<>> /\ nsent = 0 /\ lastSeq = <<>>

R(r) == topo.routers[r]
H(h) == topo.hosts[h]
Routers == DOMAIN topo.routers
Hosts == DOMAIN topo.hosts
SeqSet(s) == {s[i] : i \in 1..Len(s)}
InSubnet(r, ip) == ip >= R(r).lo /\ ip <= R(r).hi
HostWithIP(r, ip) == {h \in Hosts : H(h).router = r /\ ip \in SeqSet(H(h).ips)}
ChildWithIP(r, ip) == {c \in Routers : R(c).parent = r /\ ip \in SeqSet(R(c).wan)}
\* the open socket of host h covering (ip, port): exact ip or wildcard
Covering(h, ip, port) == {s \in DOMAIN socks : socks[s].host = h /\ socks[s].port = port /\ (socks[s].ip = 0 \/ socks[s].ip = ip)}

Part(b, a) == CASE b = "ind" -> <<>> [] b = "addr" -> <<a[1]>> [] b = "addrport" -> a
Put(f, k, v) == [x \in DOMAIN f \cup {k} |-> IF x = k THEN v ELSE f[x]]
Sentinel == <<<<0, 0>>, <<0, 0, 0>>>>
Nat0 == [maps |-> (Sentinel :> [ext |-> <<0, 0>>, perms |-> {}, cperms |-> {}]), owner |-> (<<0, 0>> :> Sentinel)]
Key(r, src, dst) == <<src, Part(R(r).mapb, dst)>>

\* where a datagram standing at router r with addresses (src, dst) goes
\*   [to |-> "host", sock], [to |-> "router", r, dst], [to |-> "up", r (parent)], [to |-> "none"]
Route(nv, r, src, dst) ==      \* nv: the NAT tables to consult
    IF InSubnet(r, dst[1]) THEN
        IF HostWithIP(r, dst[1]) # {} THEN
            LET h == CHOOSE x \in HostWithIP(r, dst[1]) : TRUE
                c == Covering(h, dst[1], dst[2])
            IN IF c = {} THEN [to |-> "none"] ELSE [to |-> "host", sock |-> CHOOSE s \in c : TRUE]
        ELSE IF ChildWithIP(r, dst[1]) # {} THEN
            LET c == CHOOSE x \in ChildWithIP(r, dst[1]) : TRUE IN
            IF R(c).mode = "1to1" THEN
                 LET locs == {loc \in DOMAIN R(c).pairs : R(c).pairs[loc] = dst[1]} IN
                 IF locs = {} THEN [to |-> "none"]
                 ELSE [to |-> "router", r |-> c, dst |-> <<CHOOSE loc \in locs : TRUE, dst[2]>>]
            ELSE LET n == nv[c]          \* NAPT: decided when the child takes it (see Hop); `sure' = certainly permitted now
                     k == IF dst \in DOMAIN n.owner THEN n.owner[dst] ELSE Sentinel
                     sure == k # Sentinel /\ k \in DOMAIN n.maps /\ n.maps[k].ext = dst
                             /\ Part(R(c).filtb, src) \in n.maps[k].cperms
                 IN [to |-> "inb", r |-> c, sure |-> sure]
        ELSE [to |-> "none"]
    ELSE IF R(r).parent = 0 THEN [to |-> "none"]
    ELSE IF R(r).mode = "1to1" /\ src[1] \notin DOMAIN R(r).pairs THEN [to |-> "none"]
    ELSE [to |-> "up", r |-> R(r).parent]

\* the sending socket's source address
SrcOf(s, dst) == <<IF socks[s].ip # 0 THEN socks[s].ip
                   ELSE IF dst[1] = Loopback THEN Loopback ELSE H(socks[s].host).ips[1],
                   socks[s].port>>

Send(s, id, dst, len) ==
    /\ id \notin DOMAIN flight /\ nsent' = nsent + 1
    /\ LET src == SrcOf(s, dst)
           h == socks[s].host
           base == [seq |-> nsent + 1, from |-> s, len |-> len, src |-> src, dst |-> dst, via |-> 0, osrc |-> src, odst |-> dst, sure |-> FALSE]
       IN IF dst[1] = Loopback THEN      \* never leaves the host
              LET c == Covering(h, dst[1], dst[2]) IN
              flight' = Put(flight, id, base @@ IF c = {} THEN [st |-> "gone", r |-> 0, sock |-> 0]
                                                 ELSE [st |-> "tohost", r |-> 0, sock |-> CHOOSE x \in c : TRUE])
          ELSE flight' = Put(flight, id, base @@ [st |-> "at", r |-> H(h).router, sock |-> 0])
    /\ UNCHANGED <<topo, socks, nat, lastSeq>>

\* NAT outbound at router q happens in two observable halves.  When q takes the datagram from its
\* queue the mapping is found or created and the permission recorded (NatPrepare); the external
\* address it was given shows at the parent's hop (NatBind), which also confirms the permission.
NatPrepare(nv, q, src, dst) ==
    IF R(q).mode = "1to1" THEN nv
    ELSE LET n == nv[q]
             k == Key(q, src, dst)
             fk == Part(R(q).filtb, dst)
         IN IF k \in DOMAIN n.maps
              THEN [nv EXCEPT ![q].maps = Put(n.maps, k, [n.maps[k] EXCEPT !.perms = @ \cup {fk}])]
              ELSE [nv EXCEPT ![q].maps = Put(n.maps, k, [ext |-> <<0, 0>>, perms |-> {fk}, cperms |-> {}])]
NatBindOK(q, osrc, dst, e) ==
    IF R(q).mode = "1to1" THEN e = <<R(q).pairs[osrc[1]], osrc[2]>>
    ELSE LET n == nat[q]
             k == Key(q, osrc, dst)
         IN /\ k \in DOMAIN n.maps
            /\ IF n.maps[k].ext # <<0, 0>> THEN e = n.maps[k].ext          \* same key, same external address
               ELSE /\ e[1] \in SeqSet(R(q).wan) /\ e[2] >= 1 /\ e[2] <= 65535   \* a valid, unheld address
                    /\ e \notin DOMAIN n.owner
NatBind(q, osrc, dst, e) ==
    IF R(q).mode = "1to1" THEN nat
    ELSE LET n == nat[q]
             k == Key(q, osrc, dst)
             fk == Part(R(q).filtb, dst)
         IN [nat EXCEPT ![q] = [maps |-> Put(n.maps, k, [ext |-> e, perms |-> n.maps[k].perms, cperms |-> n.maps[k].cperms \cup {fk}]),
                                owner |-> Put(n.owner, e, k)]]

Hop(r, id, src, dst) ==
    /\ id \in DOMAIN flight
    /\ LET f == flight[id] IN
       /\ f.r = r
       /\ \/ /\ f.st = "at" /\ dst = f.dst
             /\ (f.via = 0 => src = f.src)                       \* not translated since the last hop
             /\ (f.via # 0 => NatBindOK(f.via, f.osrc, f.dst, src)) \* came up through f.via's NAT
          \/ /\ f.st = "inb" /\ src = f.src                     \* admitted by this router's NAT: must be permitted
             /\ LET n == nat[r]
                    k == IF f.dst \in DOMAIN n.owner THEN n.owner[f.dst] ELSE Sentinel
                IN k # Sentinel /\ k \in DOMAIN n.maps /\ n.maps[k].ext = f.dst
                   /\ Part(R(r).filtb, src) \in n.maps[k].perms
                   /\ dst = k[1]                               \* exactly the endpoint that created the mapping
       /\ LET n1 == IF f.st = "at" /\ f.via # 0 THEN NatBind(f.via, f.osrc, f.dst, src) ELSE nat
              w == Route(n1, r, src, dst)
          IN /\ nat' = IF w.to = "up" THEN NatPrepare(n1, r, src, dst) ELSE n1
             /\ flight' = [flight EXCEPT ![id] =
                  CASE w.to = "host"   -> [f EXCEPT !.st = "tohost", !.sock = w.sock, !.src = src, !.dst = dst, !.via = 0]
                    [] w.to = "router" -> [f EXCEPT !.st = "at", !.r = w.r, !.dst = w.dst, !.src = src, !.via = 0]
                    [] w.to = "inb"    -> [f EXCEPT !.st = "inb", !.r = w.r, !.dst = dst, !.src = src, !.via = 0, !.sure = w.sure]
                    [] w.to = "up"     -> [f EXCEPT !.st = "at", !.r = w.r, !.dst = dst, !.via = r, !.osrc = src, !.src = src]
                    [] w.to = "none"   -> [f EXCEPT !.st = "gone", !.src = src, !.via = 0]]
    /\ UNCHANGED <<topo, socks, nsent, lastSeq>>

\* socket s returns datagram id showing source src, n bytes
Recv(s, id, src, n) ==
    /\ id \in DOMAIN flight
    /\ LET f == flight[id]
           flow == <<f.from, s, f.odst>>     \* same two sockets, same destination address as written
       IN /\ f.st = "tohost" /\ f.sock = s          \* at most once, only at the covering socket
          /\ src = f.src /\ n = f.len               \* translated source, whole payload
          /\ (flow \in DOMAIN lastSeq => lastSeq[flow] < f.seq)     \* order within a flow
          /\ lastSeq' = Put(lastSeq, flow, f.seq)
          /\ flight' = [flight EXCEPT ![id].st = "done"]
    /\ UNCHANGED <<topo, socks, nat, nsent>>

\* all queues have drained: nothing that was admitted is still missing
\* (a datagram refused by a NAT stays "inb": fine unless it was certainly permitted)
Settled(f) == f.st \in {"done", "gone"} \/ (f.st = "inb" /\ ~f.sure)
Flush == (\A id \in DOMAIN flight : Settled(flight[id])) /\ UNCHANGED vvars
=============================================================================
