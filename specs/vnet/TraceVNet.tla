------------------------------ MODULE TraceVNet ------------------------------
(* reset{routers:[{id,parent,lo,hi,wan,mode,mapb,filtb,pairs}],hosts:[{id,router,ips}]} *)
(* bind{s,host,ip,port} | send{s,id,dst,len} | hop{r,id,src,dst}                        *)
(* recv{s,id,src,n,intact} | flush                                                      *)
EXTENDS VNet, TraceIO
TraceInit == VInit /\ TraceInitL
PairFn(ps) == [loc \in {ps[i][1] : i \in 1..Len(ps)} |-> ps[CHOOSE i \in 1..Len(ps) : ps[i][1] = loc][2]]
RFn(rs) == [r \in {rs[i].id : i \in 1..Len(rs)} |->
              LET x == rs[CHOOSE i \in 1..Len(rs) : rs[i].id = r] IN
              [parent |-> x.parent, lo |-> x.lo, hi |-> x.hi, wan |-> x.wan, mode |-> x.mode,
               mapb |-> x.mapb, filtb |-> x.filtb, pairs |-> PairFn(x.pairs)]]
HFn(hs) == [h \in {hs[i].id : i \in 1..Len(hs)} |->
              LET x == hs[CHOOSE i \in 1..Len(hs) : hs[i].id = h] IN [router |-> x.router, ips |-> x.ips]]
TReset == /\ IsEv("reset") /\ Consume
          /\ topo' = [routers |-> RFn(Ev.routers), hosts |-> HFn(Ev.hosts)]
          /\ nat' = [r \in {Ev.routers[i].id : i \in 1..Len(Ev.routers)} |-> Nat0]
          /\ socks' = <<>> /\ flight' = <<>> /\ nsent' = 0 /\ lastSeq' = <<>>
TBind == /\ IsEv("bind") /\ Consume
         /\ socks' = Put(socks, Ev.s, [host |-> Ev.host, ip |-> Ev.ip, port |-> Ev.port])
         /\ UNCHANGED <<topo, nat, flight, nsent, lastSeq>>
TSend == IsEv("send") /\ Consume /\ Send(Ev.s, Ev.id, Ev.dst, Ev.len)
THop == IsEv("hop") /\ Consume /\ Hop(Ev.r, Ev.id, Ev.src, Ev.dst)
TRecv == IsEv("recv") /\ Consume /\ Ev.intact /\ Recv(Ev.s, Ev.id, Ev.src, Ev.n)
TFlush == IsEv("flush") /\ Consume /\ Flush
TraceNext == TReset \/ TBind \/ TSend \/ THop \/ TRecv \/ TFlush
TraceSpec == TraceInit /\ [][TraceNext]_<<vvars, l>>
=============================================================================
