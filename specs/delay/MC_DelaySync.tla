----------------------------- MODULE MC_DelaySync -----------------------------
(* vnet/delay_filter.go at the grain of its synchronisation operations:       *)
(*   arrival a:  (1) push [a, deadline = now + D] on the queue                *)
(*               (2) unbuffered send on the push channel (blocks until Run    *)
(*                   receives)                                                *)
(*   Run loop:   select { push received -> peek head (must exist!), re-arm    *)
(*                        timer fired   -> pop+forward head if due, re-arm }  *)
(* Tolerant = FALSE is the pinned code, whose push branch asserts that the    *)
(* queue is not empty; TLC shows that the timer branch can forward the        *)
(* datagram between steps (1) and (2), so the assertion fails (a panic).      *)
EXTENDS Integers, Sequences, FiniteSets
CONSTANTS Arrivals, D, MaxNow, Tolerant
VARIABLES now, queue, apc, timerAt, out, panicked
vars == <<now, queue, apc, timerAt, out, panicked>>
Init == /\ now = 0 /\ queue = <<>> /\ apc = [a \in Arrivals |-> "new"] /\ timerAt = 0
        /\ out = <<>> /\ panicked = FALSE
Push(a) == /\ apc[a] = "new" /\ apc' = [apc EXCEPT ![a] = "queued"]
           /\ queue' = Append(queue, [id |-> a, dl |-> now + D, arr |-> now])
           /\ UNCHANGED <<now, timerAt, out, panicked>>
\* Run receives the notification of arrival a
Notify(a) == /\ apc[a] = "queued" /\ ~panicked /\ apc' = [apc EXCEPT ![a] = "done"]
             /\ IF queue = <<>>
                  THEN IF Tolerant THEN UNCHANGED <<timerAt, panicked>>
                                   ELSE panicked' = TRUE /\ UNCHANGED timerAt
                  ELSE timerAt' = Head(queue).dl /\ UNCHANGED panicked
             /\ UNCHANGED <<now, queue, out>>
TimerFires == /\ ~panicked /\ now >= timerAt
              /\ IF queue = <<>> THEN timerAt' = now + 100 /\ UNCHANGED <<queue, out>>
                 ELSE IF Head(queue).dl < now
                        THEN /\ out' = Append(out, [id |-> Head(queue).id, arr |-> Head(queue).arr, dep |-> now])
                             /\ queue' = Tail(queue)
                             /\ timerAt' = IF Tail(queue) = <<>> THEN now + 100 ELSE Head(Tail(queue)).dl
                        ELSE timerAt' = Head(queue).dl /\ UNCHANGED <<queue, out>>
              /\ UNCHANGED <<now, apc, panicked>>
Tick == now < MaxNow /\ now' = now + 1 /\ UNCHANGED <<queue, apc, timerAt, out, panicked>>
Next == (\E a \in Arrivals : Push(a) \/ Notify(a)) \/ TimerFires \/ Tick
Spec == Init /\ [][Next]_vars

NeverPanics == ~panicked
LowerBound == \A i \in 1..Len(out) : out[i].dep >= out[i].arr + D
NoDup == \A i, j \in 1..Len(out) : i # j => out[i].id # out[j].id
=============================================================================
