CONSTANTS
  Arrivals = {1, 2, 3}
  D = 1
  MaxNow = 5
  Tolerant = TRUE
INIT Init
NEXT Next
INVARIANTS NeverPanics LowerBound NoDup
CHECK_DEADLOCK FALSE
