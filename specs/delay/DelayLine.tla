------------------------------ MODULE DelayLine ------------------------------
(* A delay element (C14): the router's MinDelay and vnet.DelayFilter.        *)
(* Datagrams leave in arrival order, each exactly once, unmodified, no       *)
(* sooner than Delay after they arrived, and every one has left when the     *)
(* element has been running long enough and has come to rest.                *)
(*                                                                           *)
(* Arrival order: a hand-in is a call (Arrive ... ArriveDone).  If the       *)
(* hand-in of x returned before the hand-in of y began, x arrived first;     *)
(* overlapping hand-ins (concurrent senders) are unordered.                  *)
(* Time stamps are integers (microseconds): tArr is taken BEFORE the         *)
(* datagram is handed in, tDep when the next NIC receives it, so the         *)
(* measured span over-approximates the true one.                             *)
EXTENDS Integers, FiniteSets
VARIABLES delay, q, clk  \* delay; datagrams inside: set of [id, t, s, d]; event counter
dlvars == <<delay, q, clk>>
DLInit(dd) == delay = dd /\ q = {} /\ clk = 0
Arrive(id, t) == /\ \A x \in q : x.id # id
                 /\ q' = q \cup {[id |-> id, t |-> t, s |-> clk + 1, d |-> 0]}
                 /\ clk' = clk + 1 /\ UNCHANGED delay
ArriveDone(id) == /\ clk' = clk + 1 /\ UNCHANGED delay
                  /\ q' = {IF x.id = id /\ x.d = 0 THEN [x EXCEPT !.d = clk + 1] ELSE x : x \in q}
Before(x, y) == x.d # 0 /\ x.d < y.s          \* x's hand-in returned before y's began
Depart(id, t) == \E e \in q :
                 /\ e.id = id                           \* exactly once: it is removed
                 /\ \A x \in q : ~Before(x, e)          \* arrival order
                 /\ t >= e.t + delay                    \* lower bound
                 /\ q' = q \ {e} /\ UNCHANGED <<delay, clk>>
AtRest == q = {} /\ UNCHANGED dlvars                   \* everything has been forwarded
=============================================================================
