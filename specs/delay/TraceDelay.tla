----------------------------- MODULE TraceDelay -----------------------------
(*  {"ev":"reset","delay":us}  {"ev":"arr","id":i,"t":us} {"ev":"arrdone","id":i}  *)
(*  {"ev":"dep","id":i,"t":us,"intact":bool}  {"ev":"rest"}                    *)
(*  {"ev":"panic"} — a recovered panic of the forwarding loop: never allowed   *)
EXTENDS DelayLine, TraceIO
TraceInit == DLInit(0) /\ TraceInitL
TReset == IsEv("reset") /\ Consume /\ delay' = Ev.delay /\ q' = {} /\ clk' = 0
TArr == IsEv("arr") /\ Consume /\ Arrive(Ev.id, Ev.t)
TDep == IsEv("dep") /\ Consume /\ Ev.intact /\ Depart(Ev.id, Ev.t)
TDone == IsEv("arrdone") /\ Consume /\ ArriveDone(Ev.id)
TRest == IsEv("rest") /\ Consume /\ AtRest
TraceNext == TReset \/ TArr \/ TDone \/ TDep \/ TRest
TraceSpec == TraceInit /\ [][TraceNext]_<<dlvars, l>>
=============================================================================
