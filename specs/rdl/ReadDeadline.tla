---------------------------- MODULE ReadDeadline ----------------------------
(* The read-deadline contract shared by every connection type of the module  *)
(* that accepts one (C10): packetio.Buffer, dpipe, udp listener connections, *)
(* vnet UDP sockets, Bridge endpoints.  One reader at a time.                *)
(*   - a read fails with a timeout only if a non-zero deadline is in force   *)
(*     and has passed;                                                       *)
(*   - once the deadline has passed, a read that is called fails with a      *)
(*     timeout (also with data queued) until the deadline is set again;      *)
(*   - a read cannot stay blocked while data is queued (and the deadline has *)
(*     not passed) nor once its deadline has passed.                         *)
(* Time: `now' and `dl' count half ticks; the harness acts at even instants    *)
(* and places deadlines at odd ones, so at every instant it acts a deadline   *)
(* has either clearly passed or clearly not (noise-proof in real time, exact  *)
(* in virtual time).  dlAt is the same deadline in microseconds: a timeout    *)
(* returned at microsecond `at' must satisfy at >= dlAt (never early).        *)
EXTENDS Integers, Sequences
VARIABLES now, dl,      \* dl = 0: no deadline, otherwise an absolute time
          inbox,        \* ids of data items queued for the reader
          rd,           \* "idle" | "pending"
          passedAtCall, \* the deadline had already passed when the pending read was called
          dlAt          \* the deadline in microseconds (0 = none)
rvars == <<now, dl, inbox, rd, passedAtCall, dlAt>>
RInit == now = 0 /\ dl = 0 /\ inbox = <<>> /\ rd = "idle" /\ passedAtCall = FALSE /\ dlAt = 0

Passed == dl # 0 /\ dl <= now
\* a pending read may legitimately still be waiting
PendingOK == rd = "pending" => (inbox = <<>> /\ ~Passed)

\* Every step other than a return first requires that a still-pending read may be waiting.
SetDL(t, at) == PendingOK /\ dl' = t /\ dlAt' = at /\ UNCHANGED <<now, inbox, rd, passedAtCall>>
Arrive(id) == PendingOK /\ inbox' = Append(inbox, id) /\ UNCHANGED <<now, dl, rd, passedAtCall, dlAt>>
Advance(t) == PendingOK /\ t >= now /\ now' = t /\ UNCHANGED <<dl, inbox, rd, passedAtCall, dlAt>>
ReadCall == rd = "idle" /\ rd' = "pending" /\ passedAtCall' = Passed /\ UNCHANGED <<now, dl, inbox, dlAt>>
RetData(id) == /\ rd = "pending" /\ ~passedAtCall           \* expiry is sticky
               /\ inbox # <<>> /\ Head(inbox) = id
               /\ inbox' = Tail(inbox) /\ rd' = "idle" /\ passedAtCall' = FALSE /\ UNCHANGED <<now, dl, dlAt>>
RetTimeout(at) == /\ rd = "pending" /\ Passed /\ at >= dlAt   \* never early, never spurious
                  /\ rd' = "idle" /\ passedAtCall' = FALSE /\ UNCHANGED <<now, dl, inbox, dlAt>>
AtRest == PendingOK /\ UNCHANGED rvars
=============================================================================
