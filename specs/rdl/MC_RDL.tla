------------------------------- MODULE MC_RDL -------------------------------
EXTENDS ReadDeadline, TLC
CONSTANTS MaxNow, MaxArr
VARIABLE narr
vars == <<rvars, narr>>
Init == RInit /\ narr = 0
T(k) == CASE k = "none" -> 0 [] k = "past" -> now - 1 [] k = "p1" -> now + 1 [] k = "p3" -> now + 3
S(k) == /\ SetDL(T(k), T(k))
        /\ (k = "past" => now > 0) /\ UNCHANGED narr
A == now < MaxNow /\ Advance(now + 2) /\ UNCHANGED narr
Arr == narr < MaxArr /\ Arrive(narr + 1) /\ narr' = narr + 1
R == ReadCall /\ UNCHANGED narr
RetD == \E id \in 1..MaxArr : RetData(id) /\ UNCHANGED narr
RetT == RetTimeout(now) /\ UNCHANGED narr
Next == (\E k \in {"none", "past", "p1", "p3"} : S(k)) \/ A \/ Arr \/ R \/ RetD \/ RetT
\* the contract is implementable: a read that may not keep waiting can always return
NoStuck == (rd = "pending" /\ ~PendingOK) => (ENABLED RetD \/ ENABLED RetT)
NoEarly == TRUE
=============================================================================
