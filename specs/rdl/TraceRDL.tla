------------------------------ MODULE TraceRDL ------------------------------
(* reset{adapter} | setdl{t,at} | arrive{id} | adv{now} | read | ret{res,id,at,intact} | rest *)
EXTENDS ReadDeadline, TraceIO
TraceInit == RInit /\ TraceInitL
TReset == /\ IsEv("reset") /\ Consume
          /\ now' = 0 /\ dl' = 0 /\ inbox' = <<>> /\ rd' = "idle" /\ passedAtCall' = FALSE /\ dlAt' = 0
TSet == IsEv("setdl") /\ Consume /\ SetDL(Ev.t, Ev.at)
TArr == IsEv("arrive") /\ Consume /\ Arrive(Ev.id)
TAdv == IsEv("adv") /\ Consume /\ Advance(Ev.now)
TRead == IsEv("read") /\ Consume /\ ReadCall
TRet == /\ IsEv("ret") /\ Consume
        /\ IF Ev.res = "data" THEN Ev.intact /\ RetData(Ev.id) ELSE Ev.res = "timeout" /\ RetTimeout(Ev.at)
TRest == IsEv("rest") /\ Consume /\ AtRest
TraceNext == TReset \/ TSet \/ TArr \/ TAdv \/ TRead \/ TRet \/ TRest
TraceSpec == TraceInit /\ [][TraceNext]_<<rvars, l>>
=============================================================================
