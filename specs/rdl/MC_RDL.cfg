CONSTANTS
  MaxNow = 8
  MaxArr = 2
INIT Init
NEXT Next
INVARIANT NoStuck
CHECK_DEADLOCK FALSE
