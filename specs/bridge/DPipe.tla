-------------------------------- MODULE DPipe --------------------------------
(* dpipe.Pipe (C18): a datagram pipe.  Each Write is one message; each Read   *)
(* returns one message cut to the reader's slice, in order.  Closing one end  *)
(* affects only that end: its own reads report EOF and its own writes the     *)
(* closed-pipe error; the peer still reads what was written and can write.    *)
EXTENDS Integers, Sequences
VARIABLES inbox,    \* inbox[e]: messages written by the peer of e, not yet read by e
          closed    \* closed[e]
dpvars == <<inbox, closed>>
Ends == {0, 1}
DPInit == inbox = [e \in Ends |-> <<>>] /\ closed = [e \in Ends |-> FALSE]
Write(e, m, res) ==
    IF closed[e] THEN res = "closed" /\ UNCHANGED dpvars
    ELSE res = "ok" /\ inbox' = [inbox EXCEPT ![1 - e] = Append(@, m)] /\ UNCHANGED closed
\* a Read that returned: res = "ok" with message id and n bytes, or "eof"
Read(e, cap, res, id, n) ==
    IF closed[e] THEN res = "eof" /\ UNCHANGED dpvars
    ELSE /\ inbox[e] # <<>> /\ res = "ok"
         /\ (Head(inbox[e]).id = id \/ (id = -1 /\ n = 0 /\ Head(inbox[e]).len = 0))   \* empty messages carry no id
         /\ n = (IF Head(inbox[e]).len < cap THEN Head(inbox[e]).len ELSE cap)
         /\ inbox' = [inbox EXCEPT ![e] = Tail(@)] /\ UNCHANGED closed
WouldBlock(e) == ~closed[e] /\ inbox[e] = <<>>
Close(e) == closed' = [closed EXCEPT ![e] = TRUE] /\ UNCHANGED inbox
=============================================================================
