CONSTANTS
  MaxW = 4
INIT Init
NEXT Next
INVARIANTS InOrder CloseIsLocal
CHECK_DEADLOCK FALSE
