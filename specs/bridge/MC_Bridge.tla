------------------------------ MODULE MC_Bridge ------------------------------
EXTENDS Bridge, TLC, FiniteSets
CONSTANTS MaxW, Ns
VARIABLES nw, written, dropped, got     \* history
vars == <<brvars, nw, written, dropped, got>>
Init == BrInit /\ nw = 0 /\ written = {} /\ dropped = {} /\ got = [s \in Sides |-> <<>>]
Ids(q) == {q[i].id : i \in 1..Len(q)}
InFlight == Ids(queue[0]) \cup Ids(queue[1]) \cup Ids(stack[0]) \cup Ids(stack[1])
W(s) == /\ nw < MaxW /\ nw' = nw + 1 /\ written' = written \cup {nw + 1}
        /\ Write(s, [id |-> nw + 1, len |-> 1 + (nw % 3)])
        /\ dropped' = dropped \cup (IF (nw + 1) \in (Ids(queue'[0]) \cup Ids(queue'[1]) \cup Ids(stack'[0]) \cup Ids(stack'[1])) THEN {} ELSE {nw + 1})
        /\ UNCHANGED got
DN(s, n) == dropN[s] = 0 /\ n > 0 /\ DropNext(s, n) /\ UNCHANGED <<nw, written, dropped, got>>
RN(s, n) == reorderN[s] # n /\ ReorderNext(s, n) /\ UNCHANGED <<nw, written, dropped, got>>
F(s, f) == filter[s] # f /\ SetFilter(s, f) /\ UNCHANGED <<nw, written, dropped, got>>
DA(s, off, n) == /\ off + 1 <= Len(queue[s]) /\ DropAt(s, off, n)
                 /\ dropped' = dropped \cup (Ids(queue[s]) \ Ids(queue'[s])) /\ UNCHANGED <<nw, written, got>>
RQ(s) == (\E e \in BOOLEAN : ReorderQ(s, e)) /\ Len(queue[s]) >= 1 /\ UNCHANGED <<nw, written, dropped, got>>
\* one tick: each side's waiting reader receives the head of the opposite queue
Tick == /\ (queue[0] # <<>> \/ queue[1] # <<>>)
        /\ queue' = [s \in Sides |-> IF queue[s] = <<>> THEN <<>> ELSE Tail(queue[s])]
        /\ got' = [r \in Sides |-> IF queue[1 - r] = <<>> THEN got[r] ELSE Append(got[r], Head(queue[1 - r]).id)]
        /\ UNCHANGED <<stack, dropN, reorderN, filter, nw, written, dropped>>
Next == \/ \E s \in Sides : W(s) \/ RQ(s)
        \/ \E s \in Sides, n \in Ns : DN(s, n)
        \/ \E s \in Sides, n \in Ns \cup {0} : RN(s, n)
        \/ \E s \in Sides, f \in {"none", "odd"} : F(s, f)
        \/ \E s \in Sides, off \in {0, 1}, n \in {1, 2} : DA(s, off, n)
        \/ Tick
GotSet == {got[0][i] : i \in 1..Len(got[0])} \cup {got[1][i] : i \in 1..Len(got[1])}
\* C18: delivered + in flight = written minus scripted drops; nothing duplicated or invented
Conservation == /\ GotSet \cup InFlight = written \ dropped
                /\ GotSet \cap InFlight = {}
                /\ Len(got[0]) + Len(got[1]) = Cardinality(GotSet)
View == <<brvars, nw>>
=============================================================================
