------------------------------- MODULE Bridge -------------------------------
(* test.Bridge (C18): two endpoints, one queue per direction, scripted        *)
(* impairments.  Side s writes into queue[s]; the reader of the other side    *)
(* receives from it.  A message is [id, len].                                 *)
EXTENDS Integers, Sequences
VARIABLES queue,      \* queue[s]: messages written by side s, not yet delivered
          stack,      \* stack[s]: messages collected by ReorderNextNWrites
          dropN, reorderN,   \* per side: writes still to drop / to collect
          filter      \* per side: "none" | "odd" (only odd ids pass) | "nothing"
brvars == <<queue, stack, dropN, reorderN, filter>>
Sides == {0, 1}
BrInit == /\ queue = [s \in Sides |-> <<>>] /\ stack = [s \in Sides |-> <<>>]
          /\ dropN = [s \in Sides |-> 0] /\ reorderN = [s \in Sides |-> 0]
          /\ filter = [s \in Sides |-> "none"]
Reverse(q) == [i \in 1..Len(q) |-> q[Len(q) + 1 - i]]
Passes(f, id) == CASE f = "none" -> TRUE [] f = "odd" -> id % 2 = 1 [] f = "nothing" -> FALSE

\* the priority order of the code: drop-next, then reorder-next, then the filter
Write(s, m) ==
    IF dropN[s] > 0 THEN
         dropN' = [dropN EXCEPT ![s] = @ - 1] /\ UNCHANGED <<queue, stack, reorderN, filter>>
    ELSE IF reorderN[s] > 0 THEN
         /\ reorderN' = [reorderN EXCEPT ![s] = @ - 1]
         /\ IF reorderN[s] = 1
              THEN /\ queue' = [queue EXCEPT ![s] = @ \o Reverse(Append(stack[s], m))]
                   /\ stack' = [stack EXCEPT ![s] = <<>>]        \* the collection is used once
              ELSE stack' = [stack EXCEPT ![s] = Append(@, m)] /\ UNCHANGED queue
         /\ UNCHANGED <<dropN, filter>>
    ELSE IF ~Passes(filter[s], m.id) THEN UNCHANGED brvars
    ELSE queue' = [queue EXCEPT ![s] = Append(@, m)] /\ UNCHANGED <<stack, dropN, reorderN, filter>>

DropNext(s, n)    == dropN' = [dropN EXCEPT ![s] = n] /\ UNCHANGED <<queue, stack, reorderN, filter>>
ReorderNext(s, n) == reorderN' = [reorderN EXCEPT ![s] = n] /\ UNCHANGED <<queue, stack, dropN, filter>>
SetFilter(s, f)   == filter' = [filter EXCEPT ![s] = f] /\ UNCHANGED <<queue, stack, dropN, reorderN>>
\* Drop(s, off, n): remove n queued messages starting at index off (0-based), clamped; off <= Len
DropAt(s, off, n) ==
    LET q == queue[s]
        k == IF off + n > Len(q) THEN Len(q) - off ELSE n
    IN  /\ off <= Len(q)
        /\ queue' = [queue EXCEPT ![s] = SubSeq(q, 1, off) \o SubSeq(q, off + k + 1, Len(q))]
        /\ UNCHANGED <<stack, dropN, reorderN, filter>>
\* Reorder(s): reverse the queue; with fewer than two messages it reports an error and changes nothing
ReorderQ(s, err) == /\ err = (Len(queue[s]) < 2)
                    /\ queue' = [queue EXCEPT ![s] = IF err THEN @ ELSE Reverse(@)]
                    /\ UNCHANGED <<stack, dropN, reorderN, filter>>
\* the reader of side r (r = 1 - s) receives message id, n bytes into a slice of length cap
Recv(r, id, n, cap) ==
    LET s == 1 - r IN
    /\ queue[s] # <<>> /\ Head(queue[s]).id = id
    /\ n = (IF Head(queue[s]).len < cap THEN Head(queue[s]).len ELSE cap)
    /\ queue' = [queue EXCEPT ![s] = Tail(@)] /\ UNCHANGED <<stack, dropN, reorderN, filter>>
\* after Process(): both queues drained
Drained == queue[0] = <<>> /\ queue[1] = <<>> /\ UNCHANGED brvars
=============================================================================
