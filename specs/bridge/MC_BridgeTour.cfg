CONSTANTS
  MaxW = 3
  Ns = {1, 2}
INIT Init
NEXT Next
INVARIANT Conservation
CHECK_DEADLOCK FALSE
VIEW View
