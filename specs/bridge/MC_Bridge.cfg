CONSTANTS
  MaxW = 4
  Ns = {1, 2}
INIT Init
NEXT Next
INVARIANT Conservation
CHECK_DEADLOCK FALSE
VIEW View
