----------------------------- MODULE TraceDPipe -----------------------------
(* reset | write{e,id,len,res} | read{e,cap,res,id,n,intact} | close{e}        *)
(* read res "block": the harness did not issue the read because it would block *)
EXTENDS DPipe, TraceIO
TraceInit == DPInit /\ TraceInitL
TReset == IsEv("reset") /\ Consume /\ inbox' = [e \in Ends |-> <<>>] /\ closed' = [e \in Ends |-> FALSE]
TW == IsEv("write") /\ Consume /\ Write(Ev.e, [id |-> Ev.id, len |-> Ev.len], Ev.res)
TR == /\ IsEv("read") /\ Consume
      /\ IF Ev.res = "block" THEN WouldBlock(Ev.e) /\ UNCHANGED dpvars
         ELSE Ev.intact /\ Read(Ev.e, Ev.cap, Ev.res, Ev.id, Ev.n)
TC == IsEv("close") /\ Consume /\ Close(Ev.e)
TraceNext == TReset \/ TW \/ TR \/ TC
TraceSpec == TraceInit /\ [][TraceNext]_<<dpvars, l>>
=============================================================================
