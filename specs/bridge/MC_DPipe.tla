------------------------------ MODULE MC_DPipe ------------------------------
EXTENDS DPipe, TLC
CONSTANT MaxW
VARIABLES nw, sent, got
vars == <<dpvars, nw, sent, got>>
Init == DPInit /\ nw = 0 /\ sent = [e \in Ends |-> <<>>] /\ got = [e \in Ends |-> <<>>]
W(e) == /\ nw < MaxW /\ nw' = nw + 1
        /\ \E res \in {"ok", "closed"} :
              /\ Write(e, [id |-> nw + 1, len |-> 1 + (nw % 3)], res)
              /\ sent' = IF res = "ok" THEN [sent EXCEPT ![e] = Append(@, nw + 1)] ELSE sent
        /\ UNCHANGED got
R(e, c) == /\ \E res \in {"ok", "eof"}, id \in 0..MaxW, n \in 0..3 :
                 /\ Read(e, c, res, id, n)
                 /\ got' = IF res = "ok" THEN [got EXCEPT ![e] = Append(@, id)] ELSE got
           /\ UNCHANGED <<nw, sent>>
C(e) == ~closed[e] /\ Close(e) /\ UNCHANGED <<nw, sent, got>>
Next == \E e \in Ends : W(e) \/ C(e) \/ \E c \in {0, 2, 5} : R(e, c)
IsPrefix(a, b) == Len(a) <= Len(b) /\ \A i \in 1..Len(a) : a[i] = b[i]
\* what an end has read is a prefix of what its peer wrote, in order
InOrder == \A e \in Ends : IsPrefix(got[e], sent[1 - e])
CloseIsLocal == \A e \in Ends : ~closed[e] => Len(got[e]) + Len(inbox[e]) = Len(sent[1 - e])
=============================================================================
