----------------------------- MODULE TraceBridge -----------------------------
(*  reset | write{s,id,len} | dropnext{s,n} | reordernext{s,n} | filter{s,f}   *)
(*  dropat{s,off,n} | reorderq{s,err} | recv{r,id,n,cap,intact} | drained      *)
EXTENDS Bridge, TraceIO
TraceInit == BrInit /\ TraceInitL
TReset == /\ IsEv("reset") /\ Consume
          /\ queue' = [s \in Sides |-> <<>>] /\ stack' = [s \in Sides |-> <<>>]
          /\ dropN' = [s \in Sides |-> 0] /\ reorderN' = [s \in Sides |-> 0] /\ filter' = [s \in Sides |-> "none"]
TW  == IsEv("write") /\ Consume /\ Write(Ev.s, [id |-> Ev.id, len |-> Ev.len])
TDN == IsEv("dropnext") /\ Consume /\ DropNext(Ev.s, Ev.n)
TRN == IsEv("reordernext") /\ Consume /\ ReorderNext(Ev.s, Ev.n)
TF  == IsEv("filter") /\ Consume /\ SetFilter(Ev.s, Ev.f)
TDA == IsEv("dropat") /\ Consume /\ DropAt(Ev.s, Ev.off, Ev.n)
TRQ == IsEv("reorderq") /\ Consume /\ ReorderQ(Ev.s, Ev.err)
TRecv == IsEv("recv") /\ Consume /\ Ev.intact /\ Recv(Ev.r, Ev.id, Ev.n, Ev.cap)
TDr == IsEv("drained") /\ Consume /\ Drained
TraceNext == TReset \/ TW \/ TDN \/ TRN \/ TF \/ TDA \/ TRQ \/ TRecv \/ TDr
TraceSpec == TraceInit /\ [][TraceNext]_<<brvars, l>>
=============================================================================
