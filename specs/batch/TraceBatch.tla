----------------------------- MODULE TraceBatch -----------------------------
(* Judges a recorded run of udp.BatchConn over real loopback sockets.        *)
(*  reset{size, interval(us), slack(us)} | write{m, t} ... | recv{m, t} ... | end *)
(* All write events precede the recv events of the same run (they are        *)
(* recorded by different goroutines; only their own clocks order them).      *)
EXTENDS Integers, Sequences, TraceIO
VARIABLES size, interval, slack, written, nrecv
tvars == <<size, interval, slack, written, nrecv>>
TraceInit == size = 0 /\ interval = 0 /\ slack = 0 /\ written = <<>> /\ nrecv = 0 /\ TraceInitL
TReset == /\ IsEv("reset") /\ Consume
          /\ size' = Ev.size /\ interval' = Ev.interval /\ slack' = Ev.slack /\ written' = <<>> /\ nrecv' = 0
TWrite == /\ IsEv("write") /\ Consume /\ nrecv = 0
          /\ Ev.m = Len(written) + 1
          /\ written' = Append(written, Ev.t) /\ UNCHANGED <<size, interval, slack, nrecv>>
\* received exactly once and in the order written; not before it was written; not later than
\* 3/2 interval after it was written
TRecv == /\ IsEv("recv") /\ Consume
         /\ Ev.m = nrecv + 1 /\ Ev.m <= Len(written)
         /\ Ev.t >= written[Ev.m]
         /\ Ev.t - written[Ev.m] <= (3 * interval) \div 2 + slack
         /\ nrecv' = nrecv + 1 /\ UNCHANGED <<size, interval, slack, written>>
\* after Close everything written has been received
TEnd == IsEv("end") /\ Consume /\ nrecv = Len(written) /\ UNCHANGED tvars
TraceNext == TReset \/ TWrite \/ TRecv \/ TEnd
TraceSpec == TraceInit /\ [][TraceNext]_<<tvars, l>>
=============================================================================
