------------------------------ MODULE MC_Batch ------------------------------
EXTENDS BatchConn
CONSTANTS MaxW, MaxNow
Init == BInit
Next == \/ nw < MaxW /\ WriteTo
        \/ now < MaxNow /\ Tick
        \/ Close
=============================================================================
