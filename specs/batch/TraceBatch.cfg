SPECIFICATION TraceSpec
CONSTRAINT HighWater
POSTCONDITION Verdict
CHECK_DEADLOCK FALSE
