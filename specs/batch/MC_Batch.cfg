CONSTANTS
  Size = 3
  IntervalT = 2
  MaxW = 7
  MaxNow = 8
INIT Init
NEXT Next
INVARIANTS InOrderOnce BatchBounded NoneWaitsLong ClosedIsEmpty
CHECK_DEADLOCK FALSE
