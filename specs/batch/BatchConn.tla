----------------------------- MODULE BatchConn -----------------------------
(* udp.BatchConn write batching (udp/batchconn.go); not one of the listed    *)
(* properties - part of the coverage of the UDP listener's batch mode.       *)
(* Messages handed to WriteTo are collected and sent with one WriteBatch     *)
(*   - when Size messages are waiting (by the writer that adds the last),    *)
(*   - by the ticker (period Interval/2) once Interval has passed since the  *)
(*     previous flush,                                                       *)
(*   - by Close.                                                             *)
(* The wire sees every message exactly once, in the order of the WriteTo     *)
(* calls, and none waits longer than MaxWait = 3/2 Interval (plus what the   *)
(* ticker goroutine is late).  Time in ticks of Interval/2.                  *)
EXTENDS Integers, Sequences
CONSTANTS Size, IntervalT      \* batch size; Interval in ticks (= 2)
VARIABLES pend,     \* messages waiting: <<[id, at]>>
          wire,     \* ids sent, in order
          nw,       \* number of WriteTo calls so far (ids are 1..nw)
          last,     \* time of the previous flush
          now, closed
bvars == <<pend, wire, nw, last, now, closed>>
BInit == pend = <<>> /\ wire = <<>> /\ nw = 0 /\ last = 0 /\ now = 0 /\ closed = FALSE

Ids(s) == [i \in 1..Len(s) |-> s[i].id]
Flush == wire' = wire \o Ids(pend) /\ pend' = <<>> /\ last' = now
WriteTo ==
    /\ ~closed /\ nw' = nw + 1 /\ UNCHANGED <<now, closed>>
    /\ LET p == Append(pend, [id |-> nw + 1, at |-> now]) IN
       IF Len(p) = Size THEN wire' = wire \o Ids(p) /\ pend' = <<>> /\ last' = now
                        ELSE pend' = p /\ UNCHANGED <<wire, last>>
\* the ticker goroutine: fires every tick, flushes when the interval has passed
Tick == /\ ~closed /\ now' = now + 1 /\ UNCHANGED <<nw, closed>>
        /\ IF pend # <<>> /\ now + 1 - last >= IntervalT
             THEN wire' = wire \o Ids(pend) /\ pend' = <<>> /\ last' = now + 1
             ELSE UNCHANGED <<pend, wire, last>>
Close == ~closed /\ closed' = TRUE /\ Flush /\ UNCHANGED <<nw, now>>

\* ---- properties
InOrderOnce == wire \o Ids(pend) = [i \in 1..nw |-> i]
BatchBounded == Len(pend) < Size
MaxWaitT == IntervalT + 1                      \* 3/2 Interval
NoneWaitsLong == \A i \in 1..Len(pend) : now - pend[i].at <= MaxWaitT
ClosedIsEmpty == closed => pend = <<>>
=============================================================================
