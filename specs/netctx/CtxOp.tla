-------------------------------- MODULE CtxOp --------------------------------
(* Context-aware I/O (netctx.Conn, netctx.PacketConn, connctx — C17), seen    *)
(* from outside: one client performs operations one after the other on a      *)
(* wrapped connection whose deadline register and transfers are observable.   *)
(*   call{p,ctx}      the client starts an operation under context ctx         *)
(*   cancel{ctx}      the context is cancelled (or times out)                  *)
(*   feed             the wrapped connection becomes able to transfer one unit *)
(*   xfer{n}          the wrapped Read/Write of the operation in flight moved  *)
(*                    n bytes                                                  *)
(*   ret{p,n,err,reg} the operation returned; reg = deadline register then     *)
(*   quiesce{...}     nothing can run any more                                 *)
EXTENDS Integers, Sequences, FiniteSets, TLC
VARIABLES cancelled,   \* set of cancelled contexts
          avail,       \* units the wrapped connection can still transfer without blocking
          op,          \* operation in flight: [p, ctx, moved] or NoOp
          reg          \* deadline register of the wrapped connection: "zero" | "old"
cvars == <<cancelled, avail, op, reg>>
NoOp == [p |-> -1, ctx |-> "", moved |-> 0]
CInit == cancelled = {} /\ avail = 0 /\ op = NoOp /\ reg = "zero"

Call(p, ctx) == op = NoOp /\ op' = [p |-> p, ctx |-> ctx, moved |-> 0] /\ UNCHANGED <<cancelled, avail, reg>>
Cancel(ctx) == cancelled' = cancelled \cup {ctx} /\ UNCHANGED <<avail, op, reg>>
Feed == avail' = avail + 1 /\ UNCHANGED <<cancelled, op, reg>>
\* the wrapped call of the operation in flight transferred n > 0 bytes
Xfer(n) == /\ op # NoOp /\ avail > 0 /\ n > 0
           /\ avail' = avail - 1 /\ op' = [op EXCEPT !.moved = @ + n] /\ UNCHANGED <<cancelled, reg>>
\* Return.  err: "nil" | "ctx" (the context's error) | "timeout" | "other"
Ret(p, n, err, r) ==
    /\ op # NoOp /\ op.p = p
    /\ n = op.moved                                  \* reports exactly what was transferred
    /\ IF n > 0 THEN err \in {"nil", "ctx"}
       ELSE /\ op.ctx \in cancelled                  \* returning empty-handed needs a cancelled context:
            /\ err = "ctx"                           \* no leftover deadline may time out a live operation
    /\ r = "zero"                                    \* no deadline left behind
    /\ reg' = r /\ op' = NoOp /\ UNCHANGED <<cancelled, avail>>
\* at rest: an operation still in flight must be waiting legitimately (live context, nothing to transfer)
Quiesce(pending, r, leaked) ==
    /\ IF op = NoOp THEN pending = {} /\ r = "zero" /\ leaked = 0
       ELSE pending = {op.p} /\ op.ctx \notin cancelled /\ avail = 0
    /\ UNCHANGED cvars
=============================================================================
