-------------------------------- MODULE CtxOp --------------------------------
(* Context-aware I/O (netctx.Conn, netctx.PacketConn, connctx — C17), seen    *)
(* from outside: clients perform operations on a wrapped connection whose       *)
(* deadline register and transfers are observable.                            *)
(*   call{p,ctx}      the client starts an operation under context ctx         *)
(*   cancel{ctx}      the context is cancelled (or times out)                  *)
(*   feed             the wrapped connection becomes able to transfer one unit *)
(*   xfer{n}          the wrapped Read/Write of the operation in flight moved  *)
(*                    n bytes                                                  *)
(*   ret{p,n,err,reg} the operation returned; reg = deadline register then     *)
(*   quiesce{...}     nothing can run any more                                 *)
EXTENDS Integers, Sequences, FiniteSets, TLC
VARIABLES cancelled,   \* set of cancelled contexts
          avail,       \* units the wrapped connection can still transfer without blocking
          ops,         \* operations in flight: set of [p, ctx, moved] (one per caller; several callers
                       \* may use one wrapper at the same time, the wrapper serialises them)
          reg          \* deadline register of the wrapped connection: "zero" | "old"
cvars == <<cancelled, avail, ops, reg>>
CInit == cancelled = {} /\ avail = 0 /\ ops = {} /\ reg = "zero"

Call(p, ctx) == (\A o \in ops : o.p # p) /\ ops' = ops \cup {[p |-> p, ctx |-> ctx, moved |-> 0]} /\ UNCHANGED <<cancelled, avail, reg>>
Cancel(ctx) == cancelled' = cancelled \cup {ctx} /\ UNCHANGED <<avail, ops, reg>>
Feed == avail' = avail + 1 /\ UNCHANGED <<cancelled, ops, reg>>
\* the wrapped call of an operation in flight transferred n > 0 bytes (which one is not observable)
Xfer(n) == /\ avail > 0 /\ n > 0 /\ avail' = avail - 1 /\ UNCHANGED <<cancelled, reg>>
           /\ \E o \in ops : ops' = (ops \ {o}) \cup {[o EXCEPT !.moved = @ + n]}
\* Return.  err: "nil" | "ctx" (the context's error) | "timeout" | "other"
Ret(p, n, err, r) ==
    \E o \in ops :
    /\ o.p = p
    /\ n = o.moved                                   \* reports exactly what was transferred
    /\ IF n > 0 THEN err \in {"nil", "ctx"}
       ELSE /\ o.ctx \in cancelled                   \* returning empty-handed needs a cancelled context:
            /\ err = "ctx"                           \* no leftover deadline may time out a live operation
    /\ r = "zero"                                    \* no deadline left behind
    /\ reg' = r /\ ops' = ops \ {o} /\ UNCHANGED <<cancelled, avail>>
\* at rest: an operation still in flight must be waiting legitimately (live context, nothing to transfer)
Quiesce(pending, r, leaked) ==
    /\ pending = {o.p : o \in ops}
    /\ \A o \in ops : o.ctx \notin cancelled /\ avail = 0
    /\ ops = {} => (r = "zero" /\ leaked = 0)
    /\ UNCHANGED cvars
=============================================================================
