------------------------------ MODULE MC_NetCtx ------------------------------
(* The algorithm of ReadContext/WriteContext (netctx, connctx) at the grain   *)
(* of its synchronisation operations, against an abstract wrapped connection  *)
(* with a deadline register.                                                  *)
(*   Op:      spawn watcher; r := next.Read(); close(done); wg.Wait; return   *)
(*   Watcher: select{ctx.Done: SetDeadline(old); <-done; SetDeadline(zero)    *)
(*                   | done: -}                                               *)
(*   Env:     cancel the context / make data available, at any time           *)
(* Restore = FALSE models a watcher that forgets to clear the deadline.       *)
EXTENDS Integers, Sequences, TLC
CONSTANTS Restore, NOps
VARIABLES opc, wpc, ctxDone, doneCh, reg, avail, moved, k, result
vars == <<opc, wpc, ctxDone, doneCh, reg, avail, moved, k, result>>
Init == /\ opc = "start" /\ wpc = "none" /\ ctxDone = FALSE /\ doneCh = FALSE /\ reg = "zero"
        /\ avail = 0 /\ moved = 0 /\ k = 1 /\ result = <<>>
Spawn == opc = "start" /\ opc' = "inread" /\ wpc' = "sel" /\ doneCh' = FALSE /\ moved' = 0
         /\ UNCHANGED <<ctxDone, reg, avail, k, result>>
\* the wrapped Read returns: with data if available, with a timeout if the deadline is old
ReadData == opc = "inread" /\ avail > 0 /\ avail' = avail - 1 /\ moved' = 1 /\ opc' = "close"
            /\ UNCHANGED <<wpc, ctxDone, doneCh, reg, k, result>>
ReadTimeout == opc = "inread" /\ avail = 0 /\ reg = "old" /\ opc' = "close"
               /\ UNCHANGED <<wpc, ctxDone, doneCh, reg, avail, moved, k, result>>
CloseDone == opc = "close" /\ doneCh' = TRUE /\ opc' = "wait" /\ UNCHANGED <<wpc, ctxDone, reg, avail, moved, k, result>>
WaitWG == /\ opc = "wait" /\ wpc = "end"
          /\ result' = Append(result, [moved |-> moved, cancelled |-> ctxDone, reg |-> reg])
          /\ IF k < NOps THEN opc' = "start" /\ k' = k + 1 /\ ctxDone' = FALSE ELSE opc' = "fin" /\ UNCHANGED <<k, ctxDone>>
          /\ wpc' = "none" /\ UNCHANGED <<doneCh, reg, avail, moved>>
WSelCtx == wpc = "sel" /\ ctxDone /\ wpc' = "setold" /\ UNCHANGED <<opc, ctxDone, doneCh, reg, avail, moved, k, result>>
WSelDone == wpc = "sel" /\ doneCh /\ wpc' = "end" /\ UNCHANGED <<opc, ctxDone, doneCh, reg, avail, moved, k, result>>
WSetOld == wpc = "setold" /\ reg' = "old" /\ wpc' = "waitdone" /\ UNCHANGED <<opc, ctxDone, doneCh, avail, moved, k, result>>
WWaitDone == wpc = "waitdone" /\ doneCh /\ wpc' = "setzero" /\ UNCHANGED <<opc, ctxDone, doneCh, reg, avail, moved, k, result>>
WSetZero == wpc = "setzero" /\ reg' = (IF Restore THEN "zero" ELSE reg) /\ wpc' = "end"
            /\ UNCHANGED <<opc, ctxDone, doneCh, avail, moved, k, result>>
EnvCancel == ~ctxDone /\ k = 1 /\ ctxDone' = TRUE /\ UNCHANGED <<opc, wpc, doneCh, reg, avail, moved, k, result>>
EnvFeed == avail < 2 /\ avail' = avail + 1 /\ UNCHANGED <<opc, wpc, ctxDone, doneCh, reg, moved, k, result>>
Next == Spawn \/ ReadData \/ ReadTimeout \/ CloseDone \/ WaitWG \/ WSelCtx \/ WSelDone \/ WSetOld
        \/ WWaitDone \/ WSetZero \/ EnvCancel \/ EnvFeed
Spec == Init /\ [][Next]_vars /\ WF_vars(Next)
\* C17 on the algorithm
NoLeftoverDeadline == \A i \in 1..Len(result) : result[i].reg = "zero"
EmptyHandedOnlyIfCancelled == \A i \in 1..Len(result) : result[i].moved = 0 => result[i].cancelled
PromptReturn == (ctxDone /\ opc = "inread") ~> (opc # "inread")
=============================================================================
