------------------------------ MODULE TraceCtx ------------------------------
EXTENDS CtxOp, TraceIO
TraceInit == CInit /\ TraceInitL
TReset == IsEv("reset") /\ Consume /\ cancelled' = {} /\ avail' = 0 /\ ops' = {} /\ reg' = "zero"
TCall == IsEv("call") /\ Consume /\ Call(Ev.p, Ev.ctx)
TCancel == IsEv("cancel") /\ Consume /\ Cancel(Ev.ctx)
TFeed == IsEv("feed") /\ Consume /\ Feed
TXfer == IsEv("xfer") /\ Consume /\ Xfer(Ev.n)
TRet == IsEv("ret") /\ Consume /\ Ret(Ev.p, Ev.n, Ev.err, Ev.reg)
TQui == IsEv("quiesce") /\ Consume /\ Quiesce({Ev.pending[i] : i \in 1..Len(Ev.pending)}, Ev.reg, Ev.leaked)
TraceNext == TReset \/ TCall \/ TCancel \/ TFeed \/ TXfer \/ TRet \/ TQui
TraceSpec == TraceInit /\ [][TraceNext]_<<cvars, l>>
=============================================================================
