------------------------------- MODULE Stream -------------------------------
(* Byte conservation across cancellations (C17): a writer pushes a byte       *)
(* stream through WriteContext, re-sending whatever a call did not report as  *)
(* written; a reader pulls it through ReadContext.  Byte i of the stream is a *)
(* function of i, so the reader checks `intact' (what arrives continues the   *)
(* stream exactly: nothing lost, duplicated or reordered).  At rest the bytes  *)
(* received equal the bytes reported written.                                 *)
EXTENDS Integers
VARIABLES wtotal, rtotal
svars == <<wtotal, rtotal>>
SInit == wtotal = 0 /\ rtotal = 0
W(n) == n >= 0 /\ wtotal' = wtotal + n /\ UNCHANGED rtotal
R(n, intact) == n >= 0 /\ intact /\ rtotal' = rtotal + n /\ UNCHANGED wtotal
AtRest == wtotal = rtotal /\ UNCHANGED svars
=============================================================================
