CONSTANTS
  Restore = FALSE
  NOps = 2
SPECIFICATION Spec
INVARIANTS NoLeftoverDeadline EmptyHandedOnlyIfCancelled
PROPERTY PromptReturn
CHECK_DEADLOCK FALSE
