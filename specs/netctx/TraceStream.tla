----------------------------- MODULE TraceStream -----------------------------
EXTENDS Stream, TraceIO
TraceInit == SInit /\ TraceInitL
TReset == IsEv("reset") /\ Consume /\ wtotal' = 0 /\ rtotal' = 0
TW == IsEv("w") /\ Consume /\ W(Ev.n)
TR == IsEv("r") /\ Consume /\ R(Ev.n, Ev.intact)
TRest == IsEv("rest") /\ Consume /\ AtRest
TraceNext == TReset \/ TW \/ TR \/ TRest
TraceSpec == TraceInit /\ [][TraceNext]_<<svars, l>>
=============================================================================
