--------------------------- MODULE MC_BufferSync ---------------------------
(* The wake-up protocol of packetio.Buffer at the grain of its critical      *)
(* sections: a mutex-protected packet count, a closed flag and the notify    *)
(* channel of capacity one (`token').                                        *)
(*   reader:  lock; packet? take it (Repost: if more remain, post the token)  *)
(*            : closed? EOF : unlock; select { token | notify closed }; loop  *)
(*   writer:  lock; count++; non-blocking post of the token; unlock           *)
(*   closer:  lock; closed; close(notify); unlock                             *)
(* Repost = FALSE is the protocol of the pinned tree: TLC then finds the      *)
(* lost wake-up (2 readers past unlock, 2 writes, 1 token).                   *)
EXTENDS Integers, FiniteSets
CONSTANTS Readers, Writers, WithClose, Repost
VARIABLES pc, count, closed, token
vars == <<pc, count, closed, token>>
Procs == Readers \cup Writers \cup (IF WithClose THEN {"closer"} ELSE {})
Init == /\ pc = [p \in Procs |-> "start"] /\ count = 0 /\ closed = FALSE /\ token = 0

ReadLock(r) == /\ pc[r] = "start"
               /\ IF count > 0
                    THEN /\ count' = count - 1
                         /\ token' = IF Repost /\ count - 1 > 0 /\ ~closed THEN 1 ELSE token
                         /\ pc' = [pc EXCEPT ![r] = "done"]
                    ELSE /\ pc' = [pc EXCEPT ![r] = IF closed THEN "done" ELSE "sel"]
                         /\ UNCHANGED <<count, token>>
               /\ UNCHANGED closed
ReadWake(r) == /\ pc[r] = "sel"
               /\ \/ token = 1 /\ token' = 0
                  \/ closed /\ UNCHANGED token          \* notify channel is closed
               /\ pc' = [pc EXCEPT ![r] = "start"] /\ UNCHANGED <<count, closed>>
Write(w) == /\ pc[w] = "start" /\ pc' = [pc EXCEPT ![w] = "done"]
            /\ IF closed THEN UNCHANGED <<count, token>> ELSE count' = count + 1 /\ token' = 1
            /\ UNCHANGED closed
CloseIt == /\ WithClose /\ pc["closer"] = "start" /\ pc' = [pc EXCEPT !["closer"] = "done"]
           /\ closed' = TRUE /\ UNCHANGED <<count, token>>
Next == \/ \E r \in Readers : ReadLock(r) \/ ReadWake(r)
        \/ \E w \in Writers : Write(w)
        \/ CloseIt
Spec == Init /\ [][Next]_vars /\ WF_vars(Next)

\* C08: nobody stays parked in the wait while a packet it could take is buffered
Parked(r) == pc[r] = "sel" /\ token = 0 /\ ~closed
NoStuckReader == (\A p \in Procs : pc[p] \in {"done", "sel"}) /\ (\A r \in Readers : pc[r] = "sel" => Parked(r))
                    => (count > 0 => \A r \in Readers : pc[r] # "sel")
CloseWakesAll == (closed /\ \A p \in Procs : pc[p] \in {"done", "sel"}) => \A r \in Readers : ~Parked(r)
EventuallyServed == <>[](count > 0 => \A r \in Readers : pc[r] = "done")
=============================================================================
