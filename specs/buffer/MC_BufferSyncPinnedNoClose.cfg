CONSTANTS
  Readers = {"r1", "r2", "r3"}
  Writers = {"w1", "w2", "w3"}
  WithClose = FALSE
  Repost = FALSE
SPECIFICATION Spec
INVARIANTS NoStuckReader CloseWakesAll
PROPERTY EventuallyServed
CHECK_DEADLOCK FALSE
