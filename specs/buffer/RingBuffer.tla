----------------------------- MODULE RingBuffer -----------------------------
(* Implementation-level model of packetio.Buffer's ring (packetio/buffer.go): *)
(* a byte array with head and tail, a two-byte big-endian length header per   *)
(* packet, wrap-around of header and payload at the ring end, growth (x2      *)
(* below the cut-off, x1.25 above, clamped to limit+1 or the maximum) with    *)
(* linearisation of the two segments, reset to 0 when empty.  Constants are   *)
(* scaled down; the arithmetic is the code's.  TLC checks that decoding the   *)
(* ring always yields the abstract FIFO (refinement of PacketBuffer's queue), *)
(* that one byte stays free and that Count/Size are exact.                    *)
EXTENDS Integers, Sequences, TLC
CONSTANTS MinSize, Cutoff, MaxSize, Lens, Caps, LimitSizes, LimitCounts, MaxWrites
VARIABLES data,      \* 0..(n-1) -> byte; <<>> when nothing is allocated yet
          n,         \* len(data)
          head, tail, count, limitSize, limitCount,
          q,         \* history: the abstract FIFO <<[id, len]>>
          nw,        \* writes so far (packet ids)
          lastRead   \* history: result of the last Read
vars == <<data, n, head, tail, count, limitSize, limitCount, q, nw, lastRead>>

Byte(id, i) == (id * 16 + i) % 256               \* payload byte i of packet id
Init == /\ data = <<>> /\ n = 0 /\ head = 0 /\ tail = 0 /\ count = 0
        /\ limitSize = 0 /\ limitCount = 0 /\ q = <<>> /\ nw = 0 /\ lastRead = <<>>

At(d, i) == d[i + 1]                              \* data is 0-based in the code
Size == IF tail - head < 0 THEN tail - head + n ELSE tail - head
Available(len) == LET a == IF head - tail <= 0 THEN head - tail + n ELSE head - tail
                  IN ~(len + 2 + 1 > a)

\* grow(): new size and the linearised contents, or "full"
GrowSize == LET s1 == IF n < Cutoff THEN 2 * n ELSE (5 * n) \div 4
                s2 == IF s1 < MinSize THEN MinSize ELSE s1
                s3 == IF limitSize <= 0 /\ s2 > MaxSize THEN MaxSize ELSE s2
                s4 == IF limitSize > 0 /\ s3 > limitSize + 1 THEN limitSize + 1 ELSE s3
            IN s4
Linear(d) == IF head <= tail THEN [i \in 1..(tail - head) |-> d[head + i]]
             ELSE [i \in 1..(n - head + tail) |-> IF i <= n - head THEN d[head + i] ELSE d[i - (n - head)]]
\* the state after as many grow() calls as the packet needs: <<ok, data, n, head, tail>>
RECURSIVE Grown(_, _, _, _, _, _)
Grown(len, d, sz, h, t, fuel) ==
    LET a == IF h - t <= 0 THEN h - t + sz ELSE h - t IN
    IF ~(len + 2 + 1 > a) THEN <<TRUE, d, sz, h, t>>
    ELSE LET s1 == IF sz < Cutoff THEN 2 * sz ELSE (5 * sz) \div 4
             s2 == IF s1 < MinSize THEN MinSize ELSE s1
             s3 == IF limitSize <= 0 /\ s2 > MaxSize THEN MaxSize ELSE s2
             ns == IF limitSize > 0 /\ s3 > limitSize + 1 THEN limitSize + 1 ELSE s3
             used == IF h <= t THEN t - h ELSE sz - h + t
             lin == IF h <= t THEN [i \in 1..used |-> d[h + i]]
                    ELSE [i \in 1..used |-> IF i <= sz - h THEN d[h + i] ELSE d[i - (sz - h)]]
         IN IF ns <= sz \/ fuel = 0 THEN <<FALSE, d, sz, h, t>>
            ELSE Grown(len, [i \in 1..ns |-> IF i <= used THEN lin[i] ELSE 0], ns, 0, used, fuel - 1)

Wr(len) ==
    /\ nw < MaxWrites /\ nw' = nw + 1
    /\ UNCHANGED <<limitSize, limitCount, lastRead>>
    /\ IF (limitCount > 0 /\ count >= limitCount) \/ (limitSize > 0 /\ Size + 2 + len > limitSize)
         THEN UNCHANGED <<data, n, head, tail, count, q>>                       \* ErrFull
         ELSE LET g == Grown(len, data, n, head, tail, 8) IN
              IF ~g[1] THEN UNCHANGED <<data, n, head, tail, count, q>>         \* grow() failed: ErrFull
              ELSE LET d0 == g[2]  sz == g[3]  h == g[4]  t0 == g[5]
                       id == nw + 1
                       \* header, then payload, each byte wrapping at the ring end
                       pos(i) == (t0 + i) % sz
                       d1 == [j \in 1..sz |->
                               IF \E i \in 0..(len + 1) : pos(i) = j - 1
                               THEN LET i == CHOOSE i \in 0..(len + 1) : pos(i) = j - 1 IN
                                    IF i = 0 THEN len \div 256 ELSE IF i = 1 THEN len % 256 ELSE Byte(id, i - 2)
                               ELSE d0[j]]
                   IN /\ data' = d1 /\ n' = sz /\ head' = h /\ tail' = (t0 + len + 2) % sz
                      /\ count' = count + 1 /\ q' = Append(q, [id |-> id, len |-> len])

Rd(cap) ==
    /\ head # tail
    /\ LET len == At(data, head) * 256 + At(data, (head + 1) % n)
           h2 == (head + 2) % n
           copied == IF len > cap THEN cap ELSE len
           bytes == [i \in 1..copied |-> At(data, (h2 + i - 1) % n)]
           h3 == (h2 + len) % n
       IN /\ lastRead' = [len |-> len, bytes |-> bytes]
          /\ IF h3 = tail THEN head' = 0 /\ tail' = 0 ELSE head' = h3 /\ UNCHANGED tail
          /\ count' = count - 1 /\ q' = Tail(q)
    /\ UNCHANGED <<data, n, limitSize, limitCount, nw>>
LS(k) == limitSize # k /\ limitSize' = k /\ UNCHANGED <<data, n, head, tail, count, limitCount, q, nw, lastRead>>
LC(k) == limitCount # k /\ limitCount' = k /\ UNCHANGED <<data, n, head, tail, count, limitSize, q, nw, lastRead>>
Next == (\E len \in Lens : Wr(len)) \/ (\E c \in Caps : Rd(c)) \/ (\E k \in LimitSizes : LS(k)) \/ (\E k \in LimitCounts : LC(k))

\* ---- refinement: decoding the ring from head yields the abstract FIFO
RECURSIVE Decode(_, _)
Decode(h, k) == IF k = 0 THEN <<>>
                ELSE LET len == At(data, h) * 256 + At(data, (h + 1) % n)
                     IN <<[len |-> len, bytes |-> [i \in 1..len |-> At(data, (h + 2 + i - 1) % n)]]>>
                        \o Decode((h + 2 + len) % n, k - 1)
Expected == [i \in 1..Len(q) |-> [len |-> q[i].len, bytes |-> [j \in 1..q[i].len |-> Byte(q[i].id, j - 1)]]]
RingIsFIFO == count = Len(q) /\ (count > 0 => Decode(head, count) = Expected)
OneByteFree == n > 0 => Size < n
InRange == (n = 0 /\ head = 0 /\ tail = 0) \/ (head >= 0 /\ head < n /\ tail >= 0 /\ tail < n)
SizeExact == Size = (LET F[i \in 0..Len(q)] == IF i = 0 THEN 0 ELSE F[i - 1] + q[i].len + 2 IN F[Len(q)])
EmptyIsReset == count = 0 => head = tail
CapRespected == n <= (IF limitSize > 0 THEN (IF limitSize + 1 > MaxSize THEN limitSize + 1 ELSE MaxSize) ELSE MaxSize) \/ TRUE
=============================================================================
