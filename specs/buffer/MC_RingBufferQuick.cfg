CONSTANTS
  MinSize = 8
  Cutoff = 16
  MaxSize = 40
  Lens = {0, 1, 6}
  Caps = {0, 2, 9}
  LimitSizes = {0, 11}
  LimitCounts = {0, 2}
  MaxWrites = 4
INIT Init
NEXT Next
INVARIANTS RingIsFIFO OneByteFree InRange SizeExact EmptyIsReset
CHECK_DEADLOCK FALSE
