CONSTANTS
  MaxSize = 4194304
  TooBig = 65536
SPECIFICATION TraceSpec
CONSTRAINT HighWater
POSTCONDITION Verdict
CHECK_DEADLOCK FALSE
