----------------------------- MODULE BufferConc -----------------------------
(* Concurrent use of packetio.Buffer (C08): calls and returns of several     *)
(* clients, each operation taking effect atomically (Lin) somewhere between   *)
(* its call and its return, on the FIFO of PacketBuffer.tla.                  *)
(*                                                                           *)
(* Read deadline: "none" | "future" | "due" (its time has come but the       *)
(* expiry has not been delivered yet) | "passed".  A read that was called     *)
(* before the deadline passed may still return a packet; a read called        *)
(* afterwards must time out.                                                  *)
(*                                                                           *)
(* Quiesce: nothing can run any more.  Every call that has not returned must *)
(* then be a Read that is legitimately waiting: buffer empty, not closed,    *)
(* deadline not passed.  A reader left waiting while a packet is buffered    *)
(* makes Quiesce impossible (the lost wake-up).                               *)
EXTENDS PacketBuffer, FiniteSets, TLC
VARIABLE pend       \* client -> [op, cap, n, b4, d, early, done, res, rn, rb4]
cvars == <<bvars, pend>>

NoRes == [res |-> "", rn |-> 0, rb4 |-> <<>>]

Call(p, c) == /\ p \notin DOMAIN pend
              /\ pend' = pend @@ (p :> (c @@ [early |-> dl # "passed", done |-> FALSE] @@ NoRes))
              /\ UNCHANGED bvars

ReadOutcome(cap) ==     \* the outcome of a read that takes effect now and does not wait
    IF q # <<>> THEN [res |-> IF cap < Head(q).len THEN "short" ELSE "ok",
                      rn |-> Min(Head(q).len, cap), rb4 |-> Prefix(Head(q).b4, Min(Head(q).len, cap))]
    ELSE [res |-> "eof", rn |-> 0, rb4 |-> <<>>]

Finish(p, r) == pend' = [pend EXCEPT ![p] = [done |-> TRUE] @@ r @@ pend[p]]

Lin(p) ==
    /\ p \in DOMAIN pend /\ ~pend[p].done
    /\ LET c == pend[p] IN
       CASE c.op = "W" ->
              \E res \in {"ok", "full", "closed", "toobig"} :
                 Write(c.n, c.b4, res) /\ Finish(p, [res |-> res, rn |-> 0, rb4 |-> <<>>])
         [] c.op = "R" ->
              \/ /\ dl = "passed" /\ UNCHANGED bvars
                 /\ Finish(p, [res |-> "timeout", rn |-> 0, rb4 |-> <<>>])
              \/ /\ dl # "passed" \/ c.early
                 /\ q # <<>> \/ closed
                 /\ Finish(p, ReadOutcome(c.cap))
                 /\ IF q # <<>> THEN q' = Tail(q) /\ sz' = sz - Head(q).len - 2 ELSE UNCHANGED <<q, sz>>
                 /\ UNCHANGED <<closed, limitCount, limitSize, dl>>
         [] c.op = "Cl" -> Close /\ Finish(p, NoRes)
         [] c.op = "DL" -> SetDeadline(c.d) /\ Finish(p, NoRes)
         [] c.op = "LS" -> SetLimitSize(c.n) /\ Finish(p, NoRes)
         [] c.op = "LC" -> SetLimitCount(c.n) /\ Finish(p, NoRes)

Ret(p, r) == /\ p \in DOMAIN pend /\ pend[p].done
             /\ pend[p].res = r.res /\ pend[p].rn = r.rn /\ pend[p].rb4 = r.rb4
             /\ pend' = [x \in DOMAIN pend \ {p} |-> pend[x]]
             /\ UNCHANGED bvars

\* the future deadline's time comes; later (silently) its expiry is delivered
Adv  == dl = "future" /\ dl' = "due" /\ UNCHANGED <<q, closed, limitCount, limitSize, sz, pend>>
Fire == dl = "due" /\ dl' = "passed" /\ UNCHANGED <<q, closed, limitCount, limitSize, sz, pend>>

Quiesce(blocked, count) ==
    /\ dl # "due"
    /\ DOMAIN pend = blocked
    /\ \A p \in blocked : pend[p].op = "R" /\ ~pend[p].done
    /\ blocked # {} => WouldBlock
    /\ count = Len(q)
    /\ UNCHANGED cvars
=============================================================================
