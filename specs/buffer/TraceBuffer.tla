---------------------------- MODULE TraceBuffer ----------------------------
(* Validates sequential histories recorded from the real packetio.Buffer.    *)
(* After every operation the harness logs Count() and Size(); they must      *)
(* equal the specification's occupancy (C07).                                *)
(* Judge = "fifo"  : C06 — order, content, boundaries, too-big/closed refusals; *)
(*                   whether a write was refused as full is taken as given.   *)
(* Judge = "limits": C07 — the full/accepted decision and Count/Size after    *)
(*                   every operation; what reads return is taken as given.    *)
EXTENDS PacketBuffer, TraceIO
CONSTANT Judge

TraceInit == BInit /\ TraceInitL
Occ == Judge = "limits" => (Len(q') = Ev.count /\ sz' = Ev.size)
Same == UNCHANGED bvars

\* write whose full/ok outcome is not judged
WriteGiven(n, b4, res) ==
    /\ UNCHANGED <<closed, limitCount, limitSize, dl>>
    /\ IF res = "ok" THEN Push(n, b4) ELSE UNCHANGED <<q, sz>>
\* read whose returned data is not judged
ReadGiven(res) ==
    /\ UNCHANGED <<closed, limitCount, limitSize, dl>>
    /\ IF res \in {"ok", "short"} /\ q # <<>>
         THEN q' = Tail(q) /\ sz' = sz - Head(q).len - 2
         ELSE UNCHANGED <<q, sz>>

TReset == /\ IsEv("reset") /\ Consume
          /\ q' = <<>> /\ closed' = FALSE /\ limitCount' = 0 /\ limitSize' = 0 /\ dl' = "none" /\ sz' = 0
TW  == /\ IsEv("W") /\ Consume
       /\ IF Judge = "fifo"
            THEN IF Ev.n >= TooBig \/ closed
                   THEN Write(Ev.n, Ev.b4, Ev.res)
                   ELSE Ev.res \in {"ok", "full"} /\ WriteGiven(Ev.n, Ev.b4, Ev.res)
            ELSE IF Ev.n >= TooBig \/ closed
                   THEN WriteGiven(Ev.n, Ev.b4, Ev.res)
                   ELSE Write(Ev.n, Ev.b4, Ev.res)
       /\ Occ
TR  == /\ IsEv("R") /\ Consume
       /\ IF Judge = "fifo"
            THEN IF Ev.res = "block" THEN WouldBlock /\ Same
                                     ELSE Ev.intact /\ Read(Ev.cap, Ev.res, Ev.n, Ev.b4)
            ELSE ReadGiven(Ev.res)
       /\ Occ
TLC_ == IsEv("LC") /\ Consume /\ SetLimitCount(Ev.k) /\ Occ
TLS == IsEv("LS") /\ Consume /\ SetLimitSize(Ev.k) /\ Occ
TCl == IsEv("Cl") /\ Consume /\ Close /\ Occ
TDL == IsEv("DL") /\ Consume /\ SetDeadline(Ev.d) /\ Occ

TraceNext == TReset \/ TW \/ TR \/ TLC_ \/ TLS \/ TCl \/ TDL
TraceSpec == TraceInit /\ [][TraceNext]_<<bvars, l>>
=============================================================================
