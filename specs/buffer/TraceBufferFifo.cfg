CONSTANTS
  MaxSize = 4194304
  TooBig = 65536
  Judge = "fifo"
SPECIFICATION TraceSpec
CONSTRAINT HighWater
POSTCONDITION Verdict
CHECK_DEADLOCK FALSE
