CONSTANTS
  MaxSize = 14
  TooBig = 9
  Lens = {0, 1, 3, 9}
  Caps = {0, 2, 3}
  Limits = {0, 1, 2, 7}
  MaxWrites = 4
INIT Init
NEXT Next
INVARIANTS Conservation CapRespected TypeOK
