CONSTANTS
  MaxSize = 1000
  TooBig = 9
  Lens = {0, 1, 3, 9}
  Caps = {0, 2, 3}
  Limits = {0, 1, 2, 7}
  MaxWrites = 3
INIT Init
NEXT Next
INVARIANTS Conservation CapRespected TypeOK
VIEW View
