---------------------------- MODULE PacketBuffer ----------------------------
(* Property-level specification of packetio.Buffer (C06, C07, and the        *)
(* sequential part of C08/C10): a FIFO of packets with count/size limits.    *)
(* A packet is [len, b4] where b4 are its first min(len,4) bytes (the        *)
(* harness makes the remaining bytes a function of b4 and checks them        *)
(* itself: `intact').                                                        *)
(*                                                                           *)
(* Every action carries its observable result so that the same definitions   *)
(* serve exhaustive model checking (results chosen by \E) and trace          *)
(* validation (results taken from the recorded line).                        *)
EXTENDS Integers, Sequences, FiniteSets
CONSTANTS MaxSize,      \* the 4 MiB cap of the ring (one byte of it is never used)
          TooBig        \* 65536: packets of this length or more are refused

VARIABLES q,            \* unread packets, oldest first
          closed,
          limitCount, limitSize,
          dl,           \* read deadline state: "none" | "future" | "passed"
          sz            \* bytes held: sum over q of len+2 (kept incrementally; MC checks sz = SumLen(q))
bvars == <<q, closed, limitCount, limitSize, dl, sz>>

SumLen(s) == LET F[i \in 0..Len(s)] == IF i = 0 THEN 0 ELSE F[i-1] + s[i].len + 2 IN F[Len(s)]
Size  == sz
Count == Len(q)

BInit == q = <<>> /\ closed = FALSE /\ limitCount = 0 /\ limitSize = 0 /\ dl = "none" /\ sz = 0

\* does the packet of length n fit?  "open" = the one value the property leaves open
Need(n) == Size + 2 + n
OverCount == limitCount > 0 /\ Count >= limitCount
OverSize(n) == IF limitSize > 0 THEN Need(n) > limitSize ELSE Need(n) > MaxSize
OpenCase(n) == limitSize <= 0 /\ Need(n) = MaxSize /\ ~OverCount

Min(a, b) == IF a < b THEN a ELSE b
Prefix(s, n) == SubSeq(s, 1, Min(n, Len(s)))

Push(n, b4) == q' = Append(q, [len |-> n, b4 |-> b4]) /\ sz' = sz + n + 2

\* Write of a packet of length n with leading bytes b4; res is what the call returned
Write(n, b4, res) ==
    /\ UNCHANGED <<closed, limitCount, limitSize, dl>>
    /\ IF n >= TooBig THEN res = "toobig" /\ UNCHANGED <<q, sz>>
       ELSE IF closed THEN res = "closed" /\ UNCHANGED <<q, sz>>
       ELSE IF OpenCase(n) THEN \/ res = "full" /\ UNCHANGED <<q, sz>>
                                \/ res = "ok" /\ Push(n, b4)
       ELSE IF OverCount \/ OverSize(n) THEN res = "full" /\ UNCHANGED <<q, sz>>
       ELSE res = "ok" /\ Push(n, b4)

\* A Read into a slice of length cap that returned without blocking.
\*   res = "ok" | "short" | "eof" | "timeout";  n bytes returned with leading bytes b4
Read(cap, res, n, b4) ==
    /\ UNCHANGED <<closed, limitCount, limitSize, dl>>
    /\ IF dl = "passed" THEN res = "timeout" /\ n = 0 /\ UNCHANGED <<q, sz>>
       ELSE IF q # <<>> THEN
            LET h == Head(q) IN
            /\ n = Min(h.len, cap)
            /\ b4 = Prefix(h.b4, n)
            /\ res = IF cap < h.len THEN "short" ELSE "ok"
            /\ q' = Tail(q)                       \* the whole packet is consumed
            /\ sz' = sz - h.len - 2
       ELSE /\ closed /\ res = "eof" /\ n = 0 /\ UNCHANGED <<q, sz>>
    \* an empty, open buffer whose deadline has not passed would block: no such step

\* a Read would block
WouldBlock == dl # "passed" /\ q = <<>> /\ ~closed

SetLimitCount(k) == limitCount' = k /\ UNCHANGED <<q, closed, limitSize, dl, sz>>
SetLimitSize(k)  == limitSize' = k /\ UNCHANGED <<q, closed, limitCount, dl, sz>>
Close            == closed' = TRUE /\ UNCHANGED <<q, limitCount, limitSize, dl, sz>>
SetDeadline(d)   == dl' = d /\ UNCHANGED <<q, closed, limitCount, limitSize, sz>>
=============================================================================
