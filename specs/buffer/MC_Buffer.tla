----------------------------- MODULE MC_Buffer -----------------------------
(* Exhaustive model of PacketBuffer at small constants, with history        *)
(* variables to state C06/C07 as invariants of the specification itself.    *)
EXTENDS PacketBuffer, TLC
CONSTANTS Lens, Caps, Limits, MaxWrites

VARIABLES nw,        \* number of Write calls so far (packet id = nw)
          written,   \* history: ids of accepted writes, in order
          got        \* history: ids returned by reads, in order
vars == <<bvars, nw, written, got>>

Init == BInit /\ nw = 0 /\ written = <<>> /\ got = <<>>

W(n) == /\ nw < MaxWrites
        /\ nw' = nw + 1
        /\ \E res \in {"ok", "full", "closed", "toobig"} :
              /\ Write(n, <<nw + 1>>, res)
              /\ written' = IF res = "ok" THEN Append(written, nw + 1) ELSE written
        /\ UNCHANGED got
R(c) == /\ \E res \in {"ok", "short", "eof", "timeout"}, n \in 0..TooBig, b4 \in {<<>>} \cup {<<i>> : i \in 1..MaxWrites} :
              /\ Read(c, res, n, b4)
              /\ got' = IF res \in {"ok", "short"} THEN Append(got, Head(q).b4[1]) ELSE got
        /\ UNCHANGED <<nw, written>>
LC(k) == limitCount # k /\ SetLimitCount(k) /\ UNCHANGED <<nw, written, got>>
LS(k) == limitSize # k /\ SetLimitSize(k) /\ UNCHANGED <<nw, written, got>>
Cl    == ~closed /\ Close /\ UNCHANGED <<nw, written, got>>
DL(d) == dl # d /\ SetDeadline(d) /\ UNCHANGED <<nw, written, got>>

Next == \/ \E n \in Lens : W(n)
        \/ \E c \in Caps : R(c)
        \/ \E k \in Limits : LC(k)
        \/ \E k \in Limits : LS(k)
        \/ Cl
        \/ \E d \in {"none", "passed"} : DL(d)
Spec == Init /\ [][Next]_vars

Ids(s) == [i \in 1..Len(s) |-> s[i].b4[1]]
\* C06: what was read, followed by what is still buffered, is exactly what was written
Conservation == got \o Ids(q) = written
\* C07: occupancy never exceeds the limits that were in force when the packets were accepted
\*      (limits may be lowered afterwards, so only the cap is a state invariant)
CapRespected == Size <= MaxSize /\ sz = SumLen(q)
View == <<bvars, nw>>
TypeOK == /\ closed \in BOOLEAN /\ Count <= MaxWrites
=============================================================================
