--------------------------- MODULE TraceBufferConc ---------------------------
EXTENDS BufferConc, TraceIO
TraceInit == BInit /\ pend = <<>> /\ TraceInitL
Same == UNCHANGED l
TReset == /\ IsEv("reset") /\ Consume /\ pend' = <<>>
          /\ q' = <<>> /\ closed' = FALSE /\ limitCount' = 0 /\ limitSize' = 0 /\ dl' = "none" /\ sz' = 0
Args == [op |-> Ev.op, cap |-> Ev.cap, n |-> Ev.n, b4 |-> Ev.b4, d |-> Ev.d]
TCall == IsEv("call") /\ Consume /\ Call(Ev.p, Args)
TRet  == IsEv("ret") /\ Consume /\ (Ev.op = "R" => Ev.intact)
                     /\ Ret(Ev.p, [res |-> Ev.res, rn |-> Ev.n, rb4 |-> Ev.b4])
TAdv  == IsEv("adv") /\ Consume /\ IF dl = "future" THEN Adv ELSE UNCHANGED cvars
TQui  == IsEv("quiesce") /\ Consume /\ Quiesce({Ev.blocked[i] : i \in 1..Len(Ev.blocked)}, Ev.count)
\* silent steps: an operation in flight takes effect; a due deadline is delivered
TLin  == More /\ Same /\ \E p \in DOMAIN pend : Lin(p)
TFire == More /\ Same /\ Fire
TraceNext == TReset \/ TCall \/ TRet \/ TAdv \/ TQui \/ TLin \/ TFire
TraceSpec == TraceInit /\ [][TraceNext]_<<cvars, l>>
=============================================================================
