CONSTANTS
  MaxN = 6
INIT Init
NEXT Next
INVARIANT AllOrNothing
CHECK_DEADLOCK FALSE
