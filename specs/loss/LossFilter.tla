----------------------------- MODULE LossFilter -----------------------------
(* vnet.LossFilter (C16).  The filter is synchronous: a datagram handed in is *)
(* either passed to the next NIC during that call or never.  `out' is the     *)
(* sequence of datagram ids the next NIC received during the call.            *)
EXTENDS Integers, Sequences
VARIABLES chance, n, d      \* configured chance, arrivals so far, drops so far
lvars == <<chance, n, d>>
LInit(c) == chance = c /\ n = 0 /\ d = 0
Arrive(id, out) ==
    /\ out \in {<<>>, <<id>>}             \* at most once, nothing else, nothing late, in order
    /\ chance <= 0 => out = <<id>>        \* chance 0 forwards everything
    /\ chance >= 100 => out = <<>>        \* chance 100 or more forwards nothing
    /\ n' = n + 1 /\ d' = (IF out = <<>> THEN d + 1 ELSE d) /\ UNCHANGED chance
\* statistical clause as an integer monitor: |100 d - n c| <= 7 sigma, sigma^2 = n c (100 - c)
\* evaluated as X <= 7 r with r = ceil(sqrt(n c (100 - c))) found by search (32-bit safe for n <= 20000)
Abs(x) == IF x < 0 THEN -x ELSE x
CeilSqrt(v) == CHOOSE r \in 0..5001 : r * r >= v /\ (r = 0 \/ (r - 1) * (r - 1) < v)
WithinSeven == (chance > 0 /\ chance < 100 /\ n >= 1000) =>
                   Abs(100 * d - n * chance) <= 7 * CeilSqrt(n * chance * (100 - chance))
=============================================================================
