----------------------------- MODULE LossFilter -----------------------------
(* vnet.LossFilter (C16).  The filter is synchronous: a datagram handed in is *)
(* either passed to the next NIC during that call or never.  `out' is the     *)
(* sequence of datagram ids the next NIC received during the call.            *)
EXTENDS Integers, Sequences
VARIABLES chance, n, d      \* configured chance, arrivals so far, drops so far
lvars == <<chance, n, d>>
LInit(c) == chance = c /\ n = 0 /\ d = 0
Arrive(id, out) ==
    /\ out \in {<<>>, <<id>>}             \* at most once, nothing else, nothing late, in order
    /\ chance <= 0 => out = <<id>>        \* chance 0 forwards everything
    /\ chance >= 100 => out = <<>>        \* chance 100 or more forwards nothing
    /\ n' = n + 1 /\ d' = (IF out = <<>> THEN d + 1 ELSE d) /\ UNCHANGED chance
\* Re-entrant use: the next NIC hands further datagrams to the filter while it is being handed one.
\* arrs: the datagrams in the order they were handed in during one outermost call, out: what the
\* next NIC received during it.  (Judged when the outermost call returns: forwarding may be deferred
\* within it, but not reordered, repeated or lost.)
RECURSIVE IsSubSeq(_, _)
IsSubSeq(s, t) == IF s = <<>> THEN TRUE
                  ELSE IF t = <<>> THEN FALSE
                  ELSE IF Head(s) = Head(t) THEN IsSubSeq(Tail(s), Tail(t)) ELSE IsSubSeq(s, Tail(t))
Reentrant(arrs, out) ==
    /\ IsSubSeq(out, arrs)                \* in order, each at most once (ids are distinct), nothing else
    /\ chance <= 0 => out = arrs
    /\ chance >= 100 => out = <<>>
    /\ n' = n + Len(arrs) /\ d' = d + Len(arrs) - Len(out) /\ UNCHANGED chance
\* statistical clause as an integer monitor: |100 d - n c| <= 7 sigma, sigma^2 = n c (100 - c)
\* evaluated as X <= 7 r with r = ceil(sqrt(n c (100 - c))) found by search (32-bit safe for n <= 20000)
Abs(x) == IF x < 0 THEN -x ELSE x
CeilSqrt(v) == CHOOSE r \in 0..5001 : r * r >= v /\ (r = 0 \/ (r - 1) * (r - 1) < v)
WithinSeven == (chance > 0 /\ chance < 100 /\ n >= 1000) =>
                   Abs(100 * d - n * chance) <= 7 * CeilSqrt(n * chance * (100 - chance))
=============================================================================
