------------------------------ MODULE MC_Loss ------------------------------
EXTENDS LossFilter, TLC
CONSTANTS MaxN
Chances == {-5, 0, 1, 50, 99, 100, 250}
Init == \E c \in Chances : LInit(c)
Next == n < MaxN /\ \E out \in {<<>>, <<n + 1>>} : Arrive(n + 1, out)
AllOrNothing == (chance <= 0 => d = 0) /\ (chance >= 100 => d = n)
=============================================================================
