------------------------------ MODULE MC_Loss ------------------------------
EXTENDS LossFilter, TLC
CONSTANTS MaxN
Chances == {-5, 0, 1, 50, 99, 100, 250}
Init == \E c \in Chances : LInit(c)
Outs2 == {<<>>, <<n + 1>>, <<n + 2>>, <<n + 1, n + 2>>, <<n + 2, n + 1>>, <<n + 1, n + 1>>}
Next == \/ n < MaxN /\ \E out \in {<<>>, <<n + 1>>} : Arrive(n + 1, out)
        \/ n < MaxN - 1 /\ \E out \in Outs2 : Reentrant(<<n + 1, n + 2>>, out)
AllOrNothing == (chance <= 0 => d = 0) /\ (chance >= 100 => d = n)
=============================================================================
