----------------------------- MODULE TraceLoss -----------------------------
EXTENDS LossFilter, TraceIO
TraceInit == LInit(0) /\ TraceInitL
TReset == IsEv("reset") /\ Consume /\ chance' = Ev.chance /\ n' = 0 /\ d' = 0
TArr == IsEv("arr") /\ Consume /\ Ev.intact /\ Arrive(Ev.id, Ev.out)
TBatch == IsEv("batch") /\ Consume /\ Ev.intact /\ Reentrant(Ev.arrs, Ev.out)
TEnd == IsEv("end") /\ Consume /\ WithinSeven /\ UNCHANGED lvars
TraceNext == TReset \/ TArr \/ TBatch \/ TEnd
TraceSpec == TraceInit /\ [][TraceNext]_<<lvars, l>>
=============================================================================
