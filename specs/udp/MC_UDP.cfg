CONSTANTS
  Backlog = 1
  Judge = "all"
  MaxSend = 3
  MaxOps = 4
INIT Init
NEXT Next
INVARIANTS OneConnPerRemote Isolation ReadIsolation BacklogBounded SockRule
CHECK_DEADLOCK FALSE
