CONSTANTS
  Backlog = 2
  Judge = "life"
SPECIFICATION TraceSpec
CONSTRAINT HighWater
POSTCONDITION Verdict
CHECK_DEADLOCK FALSE
