----------------------------- MODULE UDPListener -----------------------------
(* udp.Listen / ListenConfig (C11, C12): a listener demultiplexes the          *)
(* datagrams of one UDP socket into one connection per remote address.         *)
(*                                                                             *)
(* Clients call operations (Call ... Ret); each takes effect atomically (Lin)  *)
(* in between.  Datagrams sent by remotes queue at the socket (wire) and are   *)
(* dispatched one by one by the listener's read loop (Dispatch).               *)
(*                                                                             *)
(* conn records: [remote, open, accepted, inbox]; conns is a sequence in       *)
(* creation order; byRemote maps a remote to the index of its live connection. *)
EXTENDS Integers, Sequences, FiniteSets, TLC
CONSTANTS Backlog,
          Judge     \* "demux": C11 (socket lifetime and send results not judged); "life": C12 (which datagram a read returns not judged); "all"
VARIABLES conns, byRemote, backlog, lclosed, wire, pend, handle
uvars == <<conns, byRemote, backlog, lclosed, wire, pend, handle>>

UInit == /\ conns = <<>> /\ byRemote = <<>> /\ backlog = <<>> /\ lclosed = FALSE
         /\ wire = <<>> /\ pend = <<>> /\ handle = <<>>

\* C12: the socket is open exactly while the listener or an accepted connection is open
SockOpen == ~lclosed \/ \E i \in 1..Len(conns) : conns[i].accepted /\ conns[i].open

\* a remote sends a datagram; admit = the accept filter's verdict on it
Send(r, m, admit) == /\ wire' = IF SockOpen THEN Append(wire, [r |-> r, m |-> m, admit |-> admit]) ELSE wire
                     /\ UNCHANGED <<conns, byRemote, backlog, lclosed, pend, handle>>

\* the read loop hands the next datagram to the connection of its remote, creating it if allowed
Dispatch ==
    /\ wire # <<>> /\ wire' = Tail(wire)
    /\ LET d == Head(wire) IN
       IF d.r \in DOMAIN byRemote THEN
            /\ conns' = [conns EXCEPT ![byRemote[d.r]].inbox = Append(@, d.m)]
            /\ UNCHANGED <<byRemote, backlog>>
       ELSE IF ~lclosed /\ d.admit /\ Len(backlog) < Backlog THEN
            /\ conns' = Append(conns, [remote |-> d.r, open |-> TRUE, accepted |-> FALSE, inbox |-> <<d.m>>])
            /\ byRemote' = byRemote @@ (d.r :> Len(conns) + 1)
            /\ backlog' = Append(backlog, Len(conns) + 1)
       ELSE UNCHANGED <<conns, byRemote, backlog>>       \* refused or overflowing: creates nothing
    /\ UNCHANGED <<lclosed, pend, handle>>

Call(p, c) == /\ p \notin DOMAIN pend
              /\ pend' = pend @@ (p :> (c @@ [done |-> FALSE, res |-> "", rv |-> 0]))
              /\ UNCHANGED <<conns, byRemote, backlog, lclosed, wire, handle>>
Finish(p, res, rv) == pend' = [pend EXCEPT ![p] = [done |-> TRUE, res |-> res, rv |-> rv] @@ @]
Unmap(i) == [r \in {x \in DOMAIN byRemote : byRemote[x] # i} |-> byRemote[r]]
Conn(h) == handle[h]

Lin(p) ==
    /\ p \in DOMAIN pend /\ ~pend[p].done
    /\ LET c == pend[p] IN
       CASE c.op = "accept" ->
              \/ /\ ~lclosed
                 /\ \E k \in 1..Len(backlog) :      \* any waiting connection (concurrent Accepts may overtake)
                      /\ conns' = [conns EXCEPT ![backlog[k]].accepted = TRUE]
                      /\ backlog' = SubSeq(backlog, 1, k - 1) \o SubSeq(backlog, k + 1, Len(backlog))
                      /\ Finish(p, "ok", backlog[k])
                 /\ UNCHANGED <<byRemote, lclosed, wire, handle>>
              \/ /\ lclosed /\ Finish(p, "closed", 0)
                 /\ UNCHANGED <<conns, byRemote, backlog, lclosed, wire, handle>>
         [] c.op = "lclose" ->
              /\ lclosed' = TRUE
              \* connections nobody accepted are discarded
              /\ byRemote' = [r \in {x \in DOMAIN byRemote : conns[byRemote[x]].accepted} |-> byRemote[r]]
              /\ conns' = [i \in 1..Len(conns) |-> IF conns[i].accepted THEN conns[i] ELSE [conns[i] EXCEPT !.open = FALSE]]
              /\ backlog' = <<>> /\ Finish(p, "ok", 0)
              /\ wire' = IF \E i \in 1..Len(conns) : conns[i].accepted /\ conns[i].open THEN wire ELSE <<>>
              /\ UNCHANGED handle
         [] c.op = "cclose" ->
              /\ conns' = [conns EXCEPT ![Conn(c.h)].open = FALSE]
              /\ byRemote' = Unmap(Conn(c.h))
              /\ Finish(p, "ok", 0)
              /\ wire' = IF lclosed /\ \A i \in 1..Len(conns) : (i # Conn(c.h) /\ conns[i].accepted) => ~conns[i].open
                           THEN <<>> ELSE wire
              /\ UNCHANGED <<backlog, lclosed, handle>>
         [] c.op = "write" ->      \* an accepted, open connection can always send
              /\ Finish(p, IF conns[Conn(c.h)].open THEN "ok" ELSE "any", 0)
              /\ UNCHANGED <<conns, byRemote, backlog, lclosed, wire, handle>>
         [] c.op = "read" ->
              LET i == Conn(c.h) IN
              \/ /\ conns[i].inbox # <<>>
                 /\ Finish(p, "data", Head(conns[i].inbox))
                 /\ conns' = [conns EXCEPT ![i].inbox = Tail(@)]
                 /\ UNCHANGED <<byRemote, backlog, lclosed, wire, handle>>
              \/ /\ ~conns[i].open          \* once closed, EOF is acceptable whatever was still queued
                 /\ Finish(p, "eof", 0)
                 /\ UNCHANGED <<conns, byRemote, backlog, lclosed, wire, handle>>

\* an operation returns; a successful Accept hands out handle h for the connection it was given
Ret(p, res, remote, h) ==
    /\ p \in DOMAIN pend /\ pend[p].done
    /\ IF pend[p].res = "any" \/ (Judge = "demux" /\ pend[p].op = "write") THEN TRUE ELSE res = pend[p].res
    /\ IF pend[p].op = "accept" /\ res = "ok"
         THEN conns[pend[p].rv].remote = remote /\ handle' = handle @@ (h :> pend[p].rv)
         ELSE UNCHANGED handle
    /\ (pend[p].op = "read" /\ res = "data" /\ Judge # "life") => remote = pend[p].rv     \* the datagram id
    /\ pend' = [x \in DOMAIN pend \ {p} |-> pend[x]]
    /\ UNCHANGED <<conns, byRemote, backlog, lclosed, wire>>

\* nothing can run any more: every call still outstanding must be legitimately waiting, every
\* datagram has been dispatched, and the socket is closed exactly when nothing references it
Quiesce(blocked, sockOpen, leaked) ==
    /\ wire = <<>>
    /\ DOMAIN pend = blocked
    /\ \A p \in blocked : /\ ~pend[p].done
                          /\ \/ pend[p].op = "accept" /\ backlog = <<>> /\ ~lclosed
                             \/ pend[p].op = "read" /\ conns[Conn(pend[p].h)].inbox = <<>> /\ conns[Conn(pend[p].h)].open
    /\ Judge # "demux" => (sockOpen = SockOpen /\ (~SockOpen => leaked = 0))   \* C12: lifetime, no goroutine left
    /\ UNCHANGED uvars
=============================================================================
