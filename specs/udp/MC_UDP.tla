------------------------------- MODULE MC_UDP -------------------------------
(* Bounded exploration of UDPListener.tla: two remotes, a few datagrams, a    *)
(* handful of client operations in every interleaving with the read loop.     *)
EXTENDS UDPListener
CONSTANTS MaxSend, MaxOps
VARIABLES nsend, nops, sent, got
vars == <<uvars, nsend, nops, sent, got>>
Remotes == {1, 2}
Init == UInit /\ nsend = 0 /\ nops = 0 /\ sent = [r \in Remotes |-> <<>>] /\ got = <<>>
\* datagram ids encode their sender: m = 10 * r + k
DoSend(r, admit) == /\ nsend < MaxSend /\ nsend' = nsend + 1
                    /\ Send(r, 10 * r + nsend, admit)
                    /\ sent' = [sent EXCEPT ![r] = Append(@, 10 * r + nsend)]
                    /\ UNCHANGED <<nops, got>>
Disp == Dispatch /\ UNCHANGED <<nsend, nops, sent, got>>
NewCall(op, h) == /\ nops < MaxOps /\ nops' = nops + 1
                  /\ (op \in {"cclose", "write", "read"} => h \in DOMAIN handle)
                  /\ Call(nops + 1, [op |-> op, h |-> h])
                  /\ UNCHANGED <<nsend, sent, got>>
DoLin == (\E p \in DOMAIN pend : Lin(p)) /\ UNCHANGED <<nsend, nops, sent, got>>
DoRet == /\ \E p \in DOMAIN pend :
              /\ pend[p].done
              /\ Ret(p, IF pend[p].res = "any" THEN "ok" ELSE pend[p].res,
                     IF pend[p].op = "accept" /\ pend[p].res = "ok" THEN conns[pend[p].rv].remote ELSE pend[p].rv, p)
              /\ got' = IF pend[p].op = "read" /\ pend[p].res = "data"
                          THEN got @@ (Cardinality(DOMAIN got) + 100 :> <<Conn(pend[p].h), pend[p].rv>>) ELSE got
         /\ UNCHANGED <<nsend, nops, sent>>
Next == \/ \E r \in Remotes, a \in BOOLEAN : DoSend(r, a)
        \/ Disp \/ DoLin \/ DoRet
        \/ \E op \in {"accept", "lclose"} : NewCall(op, 0)
        \/ \E op \in {"cclose", "write", "read"}, h \in 1..MaxOps : NewCall(op, h)

\* C11: at most one live connection per remote, and it only ever holds that remote's datagrams
OneConnPerRemote == \A i, j \in 1..Len(conns) :
    (i # j /\ conns[i].open /\ conns[j].open /\ (conns[i].accepted \/ i \in {backlog[k] : k \in 1..Len(backlog)})
           /\ (conns[j].accepted \/ j \in {backlog[k] : k \in 1..Len(backlog)})) => conns[i].remote # conns[j].remote
Isolation == \A i \in 1..Len(conns) : \A k \in 1..Len(conns[i].inbox) : conns[i].inbox[k] \div 10 = conns[i].remote
ReadIsolation == \A x \in DOMAIN got : got[x][2] \div 10 = conns[got[x][1]].remote
BacklogBounded == Len(backlog) <= Backlog
\* C12: a closed socket means listener and every accepted connection are closed
SockRule == ~SockOpen => (lclosed /\ \A i \in 1..Len(conns) : conns[i].accepted => ~conns[i].open)
=============================================================================
