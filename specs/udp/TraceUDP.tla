------------------------------ MODULE TraceUDP ------------------------------
(* reset{backlog} | send{r,m,admit} | call{p,op,h} | ret{p,res,remote,h}       *)
(* quiesce{blocked,sock,leaked}; silent: Lin, Dispatch                         *)
EXTENDS UDPListener, TraceIO
TraceInit == UInit /\ TraceInitL
Same == UNCHANGED l
TReset == /\ IsEv("reset") /\ Consume
          /\ conns' = <<>> /\ byRemote' = <<>> /\ backlog' = <<>> /\ lclosed' = FALSE
          /\ wire' = <<>> /\ pend' = <<>> /\ handle' = <<>>
TSend == IsEv("send") /\ Consume /\ Send(Ev.r, Ev.m, Ev.admit)
TCall == IsEv("call") /\ Consume /\ Call(Ev.p, [op |-> Ev.op, h |-> Ev.h])
TRet  == IsEv("ret") /\ Consume /\ Ret(Ev.p, Ev.res, Ev.remote, Ev.h)
TQui  == IsEv("quiesce") /\ Consume
         /\ Quiesce({Ev.blocked[i] : i \in 1..Len(Ev.blocked)}, Ev.sock, Ev.leaked)
TLin  == More /\ Same /\ \E p \in DOMAIN pend : Lin(p)
TDisp == More /\ Same /\ Dispatch
TraceNext == TReset \/ TSend \/ TCall \/ TRet \/ TQui \/ TLin \/ TDisp
TraceSpec == TraceInit /\ [][TraceNext]_<<uvars, l>>
=============================================================================
