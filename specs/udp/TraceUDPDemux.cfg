CONSTANTS
  Backlog = 2
  Judge = "demux"
SPECIFICATION TraceSpec
CONSTRAINT HighWater
POSTCONDITION Verdict
CHECK_DEADLOCK FALSE
