-------------------------------- MODULE Xor --------------------------------
(* utils/xor.XorBytes (C20): n = min(len a, len b); dst[i] = a[i] XOR b[i]    *)
(* for i < n; every other byte of dst, a and b unchanged.  Byte sequences are *)
(* TLA+ sequences of 0..255; ^^ is bitwise xor from the Bitwise module.       *)
EXTENDS Integers, Sequences, Bitwise

Min(x, y) == IF x < y THEN x ELSE y
N(a, b) == Min(Len(a), Len(b))
\* contents of dst after XorBytes(dst, a, b); requires Len(dst) >= N(a, b)
After(dst, a, b) == [i \in 1..Len(dst) |-> IF i <= N(a, b) THEN a[i] ^^ b[i] ELSE dst[i]]

\* One call, as observed: inputs before, outputs after, the returned count.
\* alias = "none": three disjoint slices;  "a": dst is exactly a;  "b": dst is exactly b.
Call(alias, dst, a, b, n, dst2, a2, b2) ==
    /\ n = N(a, b)
    /\ CASE alias = "none" -> dst2 = After(dst, a, b) /\ a2 = a /\ b2 = b
         [] alias = "a"    -> dst = a /\ dst2 = After(a, a, b) /\ a2 = dst2 /\ b2 = b
         [] alias = "b"    -> dst = b /\ dst2 = After(b, a, b) /\ b2 = dst2 /\ a2 = a
=============================================================================
