------------------------------- MODULE MC_Xor -------------------------------
(* (1) sanity of the specification over a tiny byte domain;                  *)
(* (2) enumeration of the structural case space: every edge Case(...) of the *)
(*     state graph becomes one call on the real function.                    *)
EXTENDS Xor, TLC
CONSTANTS Lens, Offs, Extras
VARIABLE st
Bytes == {0, 1, 170, 255}
SeqsUpTo(n) == UNION {[1..k -> Bytes] : k \in 0..n}
ASSUME \A a, b \in SeqsUpTo(2) : \A d \in {x \in SeqsUpTo(3) : Len(x) >= N(a, b)} :
          /\ Len(After(d, a, b)) = Len(d)
          /\ \A i \in 1..Len(d) : i > N(a, b) => After(d, a, b)[i] = d[i]
          /\ \A i \in 1..N(a, b) : After(d, a, b)[i] ^^ b[i] = a[i]      \* involution
          /\ After(d, a, b) = After(d, b, a)                              \* symmetry
Init == st = "start"
\* la, lb: lengths; oa, ob, od: start offsets inside the backing arrays; extra: Len(dst) - n
Case(la, lb, oa, ob, od, extra, alias) ==
    /\ st = "start" /\ st' = "done"
    /\ (alias = "none" => extra \in Extras)
    /\ (alias = "a" => od = oa /\ extra = la - Min(la, lb))
    /\ (alias = "b" => od = ob /\ extra = lb - Min(la, lb))
ExtraDom == Extras \cup (0..40)
Next == \E la \in Lens, lb \in Lens, oa \in Offs, ob \in Offs, od \in Offs, extra \in ExtraDom,
           alias \in {"none", "a", "b"} : Case(la, lb, oa, ob, od, extra, alias)
=============================================================================
