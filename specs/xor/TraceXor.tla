------------------------------ MODULE TraceXor ------------------------------
(* Each line is one call of the real XorBytes with full before/after          *)
(* contents; `guards' tells whether the bytes around the three slices in      *)
(* their backing arrays are untouched.                                        *)
EXTENDS Xor, TraceIO
TraceInit == TraceInitL
TCall == /\ IsEv("xor") /\ Consume
         /\ Ev.guards
         /\ Call(Ev.alias, Ev.dst, Ev.a, Ev.b, Ev.n, Ev.dst2, Ev.a2, Ev.b2)
TSkip == IsEv("reset") /\ Consume
TraceNext == TCall \/ TSkip
TraceSpec == TraceInit /\ [][TraceNext]_l
=============================================================================
