CONSTANTS
  Lens = {0,1,2,3,4,5,6,7,8,9,10,11,12,13,14,15,16,17}
  Offs = {0, 1, 7}
  Extras = {0, 1, 9}
INIT Init
NEXT Next
CHECK_DEADLOCK FALSE
