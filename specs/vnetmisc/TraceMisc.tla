------------------------------ MODULE TraceMisc ------------------------------
(* One trace wrapper for the three auxiliary specifications; the reset line   *)
(* says which one the scenario exercises.                                     *)
EXTENDS Integers, Sequences, FiniteSets, TLC, TraceIO
\* the topology of the harness: router 1 is the root, 2 its child, 3 the child of 2
Routers == {1, 2, 3}
Parent == [r \in Routers |-> IF r = 1 THEN 0 ELSE r - 1]
Names == {"a", "b", "localhost"}
VARIABLES items, maxSize, maxBytes, started, delivered, dropped, table, kind
Q == INSTANCE ChunkQueue
L == INSTANCE RouterLife
R == INSTANCE Resolver
mvars == <<items, maxSize, maxBytes, started, delivered, dropped, table, kind>>
TraceInit == /\ Q!QInit(0, 0) /\ L!LInit /\ R!RInit /\ kind = "" /\ TraceInitL
Keep(v) == UNCHANGED v
TReset == /\ IsEv("reset") /\ Consume /\ kind' = Ev.kind
          /\ items' = <<>> /\ maxSize' = Ev.maxsize /\ maxBytes' = Ev.maxbytes
          /\ started' = [r \in Routers |-> FALSE] /\ delivered' = {} /\ dropped' = {}
          /\ table' = [r \in Routers |-> <<>>]
TPush == IsEv("push") /\ Consume /\ Q!Push(Ev.id, Ev.len, Ev.ok) /\ Keep(<<started, delivered, dropped, table, kind>>)
TPop == IsEv("pop") /\ Consume /\ Q!Pop(Ev.ok, Ev.id) /\ Keep(<<started, delivered, dropped, table, kind>>)
TPeek == IsEv("peek") /\ Consume /\ Q!Peek(Ev.id) /\ Keep(<<started, delivered, dropped, table, kind>>)
TStart == IsEv("start") /\ Consume /\ L!Start(Ev.r, Ev.err) /\ Keep(<<items, maxSize, maxBytes, table, kind>>)
TStop == IsEv("stop") /\ Consume /\ L!Stop(Ev.r, Ev.err) /\ Keep(<<items, maxSize, maxBytes, table, kind>>)
TSend == IsEv("send") /\ Consume /\ L!Send(Ev.r, Ev.id, Ev.arrived) /\ Keep(<<items, maxSize, maxBytes, table, kind>>)
TAdd == IsEv("addhost") /\ Consume /\ R!AddHost(Ev.r, Ev.name, Ev.ip) /\ Keep(<<items, maxSize, maxBytes, started, delivered, dropped, kind>>)
TLook == IsEv("lookup") /\ Consume /\ R!LookUp(Ev.r, Ev.name, Ev.ip) /\ Keep(<<items, maxSize, maxBytes, started, delivered, dropped, kind>>)
TraceNext == TReset \/ TPush \/ TPop \/ TPeek \/ TStart \/ TStop \/ TSend \/ TAdd \/ TLook
TraceSpec == TraceInit /\ [][TraceNext]_<<mvars, l>>
=============================================================================
