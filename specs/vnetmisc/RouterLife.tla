----------------------------- MODULE RouterLife -----------------------------
(* Router Start/Stop life cycle (vnet/router.go), as the code does it: Start  *)
(* on a started router and Stop on a stopped one are errors; starting or      *)
(* stopping a router does the same to its children and propagates a child's   *)
(* error; a chunk handed to a stopped router is dropped, a started one        *)
(* forwards it; after a restart forwarding resumes.                           *)
EXTENDS Integers, Sequences, FiniteSets
CONSTANTS Routers, Parent            \* Parent[r] = parent router or 0
VARIABLES started, delivered, dropped
lvars == <<started, delivered, dropped>>
LInit == started = [r \in Routers |-> FALSE] /\ delivered = {} /\ dropped = {}
Children(r) == {x \in Routers : Parent[x] = r}
\* what the code does, child by child: Start marks r started and then starts its children, stopping
\* at the first child that reports an error (already started); Stop first stops the children and
\* gives up at the first child that reports an error (already stopped), leaving r started.
\* (Routers form a chain in the harness, so "children in order" is at most one child.)
RECURSIVE StartFrom(_, _), StopFrom(_, _)
StartFrom(st, r) ==            \* <<new started, error>>
    IF st[r] THEN <<st, TRUE>>
    ELSE LET s1 == [st EXCEPT ![r] = TRUE] IN
         IF Children(r) = {} THEN <<s1, FALSE>>
         ELSE StartFrom(s1, CHOOSE c \in Children(r) : TRUE)
StopFrom(st, r) ==
    IF ~st[r] THEN <<st, TRUE>>
    ELSE IF Children(r) = {} THEN <<[st EXCEPT ![r] = FALSE], FALSE>>
    ELSE LET sub == StopFrom(st, CHOOSE c \in Children(r) : TRUE) IN
         IF sub[2] THEN <<sub[1], TRUE>> ELSE <<[sub[1] EXCEPT ![r] = FALSE], FALSE>>
Start(r, err) == /\ started' = StartFrom(started, r)[1] /\ err = StartFrom(started, r)[2]
                 /\ UNCHANGED <<delivered, dropped>>
Stop(r, err) == /\ started' = StopFrom(started, r)[1] /\ err = StopFrom(started, r)[2]
                /\ UNCHANGED <<delivered, dropped>>
\* a datagram between two hosts of router r (same subnet): arrives iff r is started
Send(r, id, arrived) == /\ arrived = started[r]
                        /\ delivered' = IF arrived THEN delivered \cup {id} ELSE delivered
                        /\ dropped' = IF arrived THEN dropped ELSE dropped \cup {id}
                        /\ UNCHANGED started
=============================================================================
