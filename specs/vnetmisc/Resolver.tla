------------------------------ MODULE Resolver ------------------------------
(* vnet resolver: every router has a host table; lookups walk up the parent   *)
(* chain and return the nearest definition; "localhost" always resolves to    *)
(* 127.0.0.1; unknown names fail.                                             *)
EXTENDS Integers, FiniteSets, TLC
CONSTANTS Routers, Parent, Names
VARIABLE table          \* table[r]: name -> ip (a function with domain = names defined at r)
RInit == table = [r \in Routers |-> <<>>]
AddHost(r, name, ip) == table' = [table EXCEPT ![r] = [n \in DOMAIN table[r] \cup {name} |-> IF n = name THEN ip ELSE table[r][n]]]
RECURSIVE Find(_, _)
Find(r, name) == IF r = 0 THEN 0
                 ELSE IF name \in DOMAIN table[r] THEN table[r][name] ELSE Find(Parent[r], name)
\* LookUp from a host attached to router r: the ip, or 0 for "not found"
LookUp(r, name, ip) == ip = (IF name = "localhost" THEN 127001 ELSE Find(r, name)) /\ UNCHANGED table
=============================================================================
