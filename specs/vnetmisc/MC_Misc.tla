------------------------------- MODULE MC_Misc -------------------------------
(* Small exhaustive checks of the three auxiliary specifications.              *)
EXTENDS Integers, Sequences, FiniteSets, TLC
VARIABLES items, maxSize, maxBytes, nid, popped
Q == INSTANCE ChunkQueue
vars == <<items, maxSize, maxBytes, nid, popped>>
Init == (\E ms \in {0, 2}, mb \in {0, 5} : Q!QInit(ms, mb)) /\ nid = 0 /\ popped = <<>>
P(len) == nid < 4 /\ nid' = nid + 1 /\ (\E ok \in BOOLEAN : Q!Push(nid + 1, len, ok)) /\ UNCHANGED popped
O == \E ok \in BOOLEAN, id \in 0..4 : Q!Pop(ok, id) /\ popped' = (IF ok THEN Append(popped, id) ELSE popped) /\ UNCHANGED nid
Next == (\E len \in {0, 2, 3} : P(len)) \/ O
\* what is popped comes out in push order, and the limits are respected
Ordered == \A i, j \in 1..Len(popped) : i < j => popped[i] < popped[j]
Bounded == (maxSize > 0 => Len(items) <= maxSize) /\ (maxBytes > 0 => Q!Bytes < maxBytes)
=============================================================================
