INIT Init
NEXT Next
INVARIANTS Ordered Bounded
CHECK_DEADLOCK FALSE
