----------------------------- MODULE ChunkQueue -----------------------------
(* vnet chunkQueue: the FIFO used by routers, the token bucket filter and the *)
(* delay filter.  Bounded by a chunk count (maxSize) and/or by bytes          *)
(* (maxBytes); 0 or negative = unlimited.  A push is refused when the count   *)
(* limit is reached or when the bytes would reach (>=) the byte limit.        *)
EXTENDS Integers, Sequences
VARIABLES items, maxSize, maxBytes      \* items: <<[id, len]>>
qvars == <<items, maxSize, maxBytes>>
Bytes == LET F[i \in 0..Len(items)] == IF i = 0 THEN 0 ELSE F[i - 1] + items[i].len IN F[Len(items)]
QInit(ms, mb) == items = <<>> /\ maxSize = ms /\ maxBytes = mb
Refused(len) == (maxSize > 0 /\ Len(items) >= maxSize) \/ (maxBytes > 0 /\ Bytes + len >= maxBytes)
Push(id, len, ok) == /\ ok = ~Refused(len)
                     /\ items' = IF ok THEN Append(items, [id |-> id, len |-> len]) ELSE items
                     /\ UNCHANGED <<maxSize, maxBytes>>
\* Pop: ok with the head's id, or not ok on an empty queue
Pop(ok, id) == /\ ok = (items # <<>>)
               /\ IF ok THEN id = Head(items).id /\ items' = Tail(items) ELSE UNCHANGED items
               /\ UNCHANGED <<maxSize, maxBytes>>
\* Peek: the head's id, 0 when empty; changes nothing
Peek(id) == id = (IF items = <<>> THEN 0 ELSE Head(items).id) /\ UNCHANGED qvars
=============================================================================
